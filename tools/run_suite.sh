#!/bin/bash
# Runs the repository's pinned test-suite (xdist-parallel, for development use) and compares with BASELINE.json.
# usage: tools/run_suite.sh [repo_dir] [extra pytest args]
REPO=${1:-/repo}; shift
OUT=$(mktemp /tmp/suite.XXXXXX.xml)
cd "$REPO" && /venv/bin/python -m pytest -q -p no:cacheprovider --timeout=900 --continue-on-collection-errors -n ${NPROC:-12} --junitxml=$OUT "$@" 2>&1 | tail -3
/venv/bin/python - "$OUT" <<'PY'
import json,sys,xml.etree.ElementTree as ET
base=set(json.load(open('/root/.vp/BASELINE.json'))['stable_pass'])
t=ET.parse(sys.argv[1]).getroot()
ok=set(); bad=set()
for tc in t.iter('testcase'):
    name=f"{tc.get('classname')}::{tc.get('name')}"
    if any(c.tag in('failure','error') for c in tc): bad.add(name)
    elif not any(c.tag=='skipped' for c in tc): ok.add(name)
missing=sorted(base-ok)
print(f"baseline stable tests passing: {len(base&ok)}/{len(base)}; failing-or-missing: {missing}")
PY
rm -f $OUT
