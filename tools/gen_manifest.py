#!/usr/bin/env python3
"""Regenerates MANIFEST.json from the table below and the check modules present in checks/."""
import importlib, json, os, sys

HERE = os.path.dirname(os.path.dirname(os.path.abspath(__file__)))
sys.path.insert(0, HERE)

TEXT = {
    "C01": ("4 C01", "Bounded exhaustive: every random answer / genotype / <=K-step operation sequence on the generated grammar families is executed on the real code and every produced program is checked field by field against the grammar spec."),
    "C02": ("4 C02", "Every metahandler alone over its parameter alphabet and every answer of the source; every refined field of every program produced in the bounded exploration; generator/validator agreement."),
    "C03": ("4 C03", "For every grammar of the family, every max depth from reference-minimum-1 to +2, every random answer: no failure at a feasible limit, depth bound respected (also after mutate/crossover), infeasible limits rejected before any draw."),
    "C04": ("4 C04", "Whole decision tree of depth-limited creation enumerated and compared as a set with an independent enumeration of the bounded language (both inclusions)."),
    "C05": ("4 C05", "Every hierarchy of the generated family in both depth modes, analysis compared with independent fixed-point / graph references validated by language enumeration."),
    "C06": ("4 C06", "All ordered parent pairs of the bounded language / gene space x all random answers, child related structurally to its parents."),
    "C07": ("4 C07", "All genotypes over the gene alphabet, all interleavings of mapping with draws on the shared source up to length 4; monitor on the shared source."),
    "C08": ("4 C08", "Configurations x all iteration orders of the grammar's symbol sets (hash-controlled metaclass) x process environments; traces compared."),
    "C09": ("4 C09", "Explicit-state search with heap-wide snapshot invariant; all steps and combinators on evaluated populations over all random answers."),
    "C10": ("4 C10", "Grammar snapshot before/after every call of the bounded exploration incl. failing and backtracking calls; differential re-enumeration."),
    "C11": ("4 C11", "Every node of every program of the bounded exploration compared with an independent fold."),
    "C12": ("4 C12", "All fitness histories up to a length over a small alphabet x batching x direction x tracker kind against a running-best reference; searches with scripted landscapes."),
    "C13": ("4 C13", "All populations over an individual alphabet x evaluator x call sequences against an invocation log; all schedules of a virtual pool; real-pool conformance."),
    "C14": ("4 C14", "All budgets n x sizes x algorithms x step compositions x landscapes with a logging budget proxy; explicit state graph for liveness."),
    "C15": ("4 C15", "All step terms to nesting depth 2-3 x weights x population sizes x iterable forms; all initialisers."),
    "C16": ("4 C16", "All populations up to size 5 over the fitness alphabet x direction x elite count; monotone best over scripted GP runs."),
    "C17": ("4 C17", "All populations / fitness vectors / tournament sizes / targets and ALL random answers."),
    "C18": ("4 C18", "Derived primitives for every in-bounds answer of randint; genotype-backed sources over all gene lists x bounds alphabet; deciders over bounds alphabet."),
    "C19": ("4 C19", "All weight assignments over a small alphabet on 2-3 production hierarchies, repeated extraction; choosers over the complete choice_weighted range."),
    "C20": ("4 C20", "Every evaluation history up to length 5 x configurations on an in-memory raw device; every prefix of the raw write log is a crash image."),
}


def main():
    checks = []
    na = []
    for i in range(1, 21):
        pid = f"C{i:02d}"
        path = os.path.join(HERE, "checks", pid + ".py")
        if not os.path.exists(path):
            na.append({"property_id": pid, "reason": "check not built yet in this session (planned in DESIGN.md section 4)"})
            continue
        mod = importlib.import_module("checks." + pid)
        ref, text = TEXT[pid]
        checks.append({
            "property_id": pid,
            "quick_cmd": f"/venv/bin/python run.py {pid} --tier quick",
            "thorough_cmd": f"/venv/bin/python run.py {pid} --tier thorough",
            "evidence_file": f"evidence/{pid}.json",
            "replay_cmd_template": "/venv/bin/python run.py --replay {path}",
            "engine": "mc",
            "level_claimed": {
                "category": "fault_enumeration" if pid == "C20" else "model_checking",
                "text": text,
                "design_ref": "DESIGN.md section " + ref,
            },
            "level_note": getattr(mod, "LEVEL_NOTE", "bounded: nothing is claimed outside the stated alphabets and bounds; the harness (mc/) and the reference semantics (mc/refsem.py) are trusted"),
            "technique": mod.TECHNIQUE,
        })
    m = {
        "version": 1,
        "setup_cmd": "/venv/bin/python run.py --selftest",
        "hooks": {
            "guard": "GENETICENGINE_VERIF",
            "enable": "no source hooks: every seam is reached by subclassing RandomSource or patching module attributes from the harness",
            "baseline_off_cmd": "cd /repo && /venv/bin/python -m pytest -ra -q -p no:cacheprovider --timeout=900 --continue-on-collection-errors",
            "source_commits": [],
            "add_only": True,
        },
        "engines": [
            {"name": "mc", "path": "mc/", "serves_properties": [c["property_id"] for c in checks],
             "kind_free_text": "hand-written stateless choice-tree explorer (prefix replay, deviation bounding) and explicit-state BFS over the real Python implementation; reference models in Python"},
        ],
        "checks": checks,
        "not_applicable": na,
        "notes": "All checks run the real code from /repo in a fresh interpreter (nothing to build). known_findings.json lists recorded and repaired defects.",
    }
    with open(os.path.join(HERE, "MANIFEST.json"), "w") as f:
        json.dump(m, f, indent=1)
    print(f"MANIFEST.json: {len(checks)} checks, {len(na)} not applicable")


main()
