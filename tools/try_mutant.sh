#!/bin/bash
# usage: tools/try_mutant.sh <patch.diff> [Cxx ...]
# Applies the patch to a scratch worktree of /repo's HEAD (or, with INPLACE=1, to /repo itself and reverts afterwards),
# runs the quick checks against it and prints one line per check with the VIOLATION lines.
set -u
PATCH=$(readlink -f "$1"); shift
CHECKS=${@:-C01 C02 C03 C04 C05 C06 C07 C08 C09 C10 C11 C12 C13 C14 C15 C16 C17 C18 C19 C20}
SCR=${SCRATCH:-/tmp/verif_scratch.$$}
mkdir -p $SCR/evidence $SCR/replays
export VERIF_EVIDENCE_DIR=$SCR/evidence VERIF_REPLAY_DIR=$SCR/replays
if [ "${INPLACE:-0}" = "1" ]; then
  cd /repo || exit 9
  [ -z "$(git status --porcelain)" ] || { echo "/repo not clean"; exit 9; }
  git apply "$PATCH" || { echo "patch does not apply"; exit 9; }
  trap 'git -C /repo checkout -- . ; rm -rf '$SCR EXIT
else
  WT=$SCR/repo
  git -C /repo worktree add -q --detach $WT HEAD || exit 9
  trap 'git -C /repo worktree remove --force '$WT'; rm -rf '$SCR EXIT
  git -C $WT apply "$PATCH" || { echo "patch does not apply"; exit 9; }
  export VERIF_REPO=$WT
fi
cd /verif
for c in $CHECKS; do
  out=$(timeout ${TIMEOUT:-900} /venv/bin/python run.py $c --tier ${TIER:-quick} 2>&1); rc=$?
  echo "== $c rc=$rc $(echo "$out" | grep -c '^VIOLATION') violation(s)"
  echo "$out" | grep -A2 '^VIOLATION' | grep -v '^--' | cut -c1-260 | head -${LINES_MAX:-6}
  echo "$out" | grep -E 'HARNESS-ERROR|harness error' | head -3
done
