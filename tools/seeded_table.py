#!/usr/bin/env python3
"""Prints the markdown table of seeded changes (DESIGN.md section 10) from seeded/*/meta.json."""
import glob, json, os
rows = []
for f in sorted(glob.glob(os.path.join(os.path.dirname(os.path.dirname(os.path.abspath(__file__))), "seeded", "*", "meta.json"))):
    m = json.load(open(f))
    c = m.get("confirmed", {})
    sid = os.path.basename(os.path.dirname(f))
    det = ", ".join(c.get("detected_by", [])) or "**none**"
    ok = c.get("demo_unchanged_rc") == 0 and (c.get("demo_changed_rc") or 0) != 0 and "120/120" in str(c.get("suite", ""))
    rows.append(f"| {sid} | {m.get('property','')} | {m.get('summary','')[:150].replace('|','/')} | {m.get('needs','')[:110].replace('|','/')} | {'yes' if ok else 'NOT CONFIRMED: ' + str(c.get('suite',''))[:60]} | {det} |")
print("| seeded change | breaks | what was changed | needs, to manifest | demo fails only with change, suite 120/120 | caught by (quick tier) |")
print("|---|---|---|---|---|---|")
print("\n".join(rows))
