#!/usr/bin/env python3
"""Replaces the table of seeded changes in DESIGN.md (section 10) with the current output of tools/seeded_table.py."""
import os, subprocess, sys
root = os.path.dirname(os.path.dirname(os.path.abspath(__file__)))
table = subprocess.run([sys.executable, os.path.join(root, "tools", "seeded_table.py")], capture_output=True, text=True, check=True).stdout.rstrip("\n").split("\n")
p = os.path.join(root, "DESIGN.md")
lines = open(p).read().split("\n")
start = next(i for i, l in enumerate(lines) if l.startswith("| seeded change | breaks |"))
end = start
while end < len(lines) and lines[end].startswith("|"):
    end += 1
lines[start:end] = table
open(p, "w").write("\n".join(lines))
print(f"table rows: {len(table) - 2}")
