#!/usr/bin/env python3
"""Rewrites the 'fixed' list of known_findings.json from /repo's 'fix:' commits (hashes change when the
history is rebased).  The table maps a substring of the commit subject to (property, what failed)."""
import json, subprocess, sys

TABLE = [
    ("build tuple fields as real tuples", "C01", "tuple[...] fields were handed out as an unevaluated generator expression (tree create/mutate/crossover and GE/SGE/dSGE mapping)"),
    ("un-annotated list elements are created at the depth", "C03", "un-annotated list[Abstract] fields: creation died with AssertionError from random.choice([]) at the depth frontier for every max depth (also C01 foreign exception, C04 unreachable programs)"),
    ("ProgressivelyTerminalDecider handles union alternatives", "C01", "ProgressivelyTerminalDecider raised KeyError for Union alternatives that are annotated base types"),
    ("PositionIndependentGrowDecider no longer raises AttributeError", "C01", "PositionIndependentGrowDecider raised AttributeError('expanding') with a concrete start symbol"),
    ("DynamicSGEDecider reads genes for keys", "C01", "DynamicSGEDecider.read raised KeyError for Union types / int / float / bool / infrastructure keys"),
    ("DynamicSGEDecider.random_bool returns a bool", "C01", "DynamicSGEDecider.random_bool returned the raw gene (e.g. 129) for bool fields"),
    ("DynamicSGEDecider.random_int covers the inclusive range", "C18", "DynamicSGEDecider.random_int never produced the upper bound and divided by zero on equal bounds"),
    ("random_str builds the string", "C08", "random_str returned str(<generator>) whose text embeds a memory address (both BaseDecider and DynamicSGEDecider)"),
    ("stack mapping builds tuple", "C01", "stack mapping produced () for every tuple[...] field ('target_type is tuple' dead branch)"),
    ("choice_weighted never returns an option of zero weight", "C18", "choice_weighted returned choices[0] on the draw value 'total' even when its weight is zero (also C19, C02 WeightedStringHandler)"),
    ("IntervalRange.validate accepts every interval", "C02", "IntervalRange.validate rejected the minimum length and an end at the top limit that generate() produces"),
    ("dynamic SGE accepts a maximum depth equal", "C03", "DynamicSGEDecider.validate rejected max_depth == grammar minimum"),
    ("bool fields do not add a level of depth", "C05", "bool had distance 1 (int/float/str 0): productions with a bool field reported one level too deep; feasible limit rejected (C03)"),
    ("minimum depth of a Union field", "C05", "Union distance used max over the alternatives instead of min"),
    ("recursion analysis looks inside tuple", "C05", "recursion through tuple[...] fields was not detected"),
    ("usable_grammar unwraps nested generic", "C05", "usable_grammar hit 'assert False' on Annotated[list[X], ...] and other nested generic field types"),
    ("extracting a weighted grammar tolerates", "C19", "extract_grammar/usable_grammar of a weighted grammar raised KeyError for unreachable or builtin considered subtypes"),
    ("node labels count what is inside lists and tuples", "C11", "nodes owning a list had gengy_nodes==2/distance 1 whatever the list held; list and tuple contents missing from gengy_types_this_way"),
    ("stack mapping chooses among stack types in a grammar-determined order", "C08", "stack mapping indexed list(set_of_symbols): same genotype, different program in another process"),
    ("structured GE lays out genotype keys", "C08", "SGE genotype key order followed the address-dependent iteration order of Grammar.all_nodes"),
    ("backtracking over infeasible productions no longer edits the grammar", "C10", "create_node removed productions that raised SynthesisException from grammar.alternatives itself"),
    ("GE and structured GE read structural decisions from the genotype", "C07", "GE/SGE mapping chose productions with the decider's shared random source: same genotype, different programs; shared stream advanced"),
    ("dynamic SGE draws refinement values from the genotype", "C07", "dSGE mapping drew metahandler values from the shared random source at every mapping"),
    ("dynamic SGE mutation keeps the genotype's type keys", "C06", "dSGE mutate/crossover deep-copied the type keys of the genotype: genes under Union/Annotated keys were lost (locus changed)"),
    ("BaseDecider.random_int stays within its bounds", "C18", "BaseDecider.random_int(0, 1001) could return values outside [0, 1001] for ranges wider than 1000"),
    ("ParallelEvaluator evaluates each unevaluated individual once", "C13", "ParallelEvaluator re-evaluated and re-counted individuals that already had a fitness, evaluated duplicates twice, crashed on an empty batch"),
    ("ElitismStep materialises its input population", "C15", "ElitismStep yielded nothing for a one-shot iterator input (e.g. inside SequenceStep)"),
    ("tournament selection keeps drawing from the population", "C15", "TournamentSelection overwrote its candidate pool with the tournament participants and re-read a consumed iterator (AssertionError)"),
    ("ParallelStep and ExclusiveParallelStep always yield exactly", "C15", "ParallelStep/ExclusiveParallelStep produced more or fewer than the target ([1,1,0] on 3 -> 4; [1,0] -> 2x) and passed on a consumed iterator"),
    ("InjectInitialPopulationWrapper tops the population up", "C15", "InjectInitialPopulationWrapper yielded one individual too many and raised UnboundLocalError for an empty injection list"),
    ("HalfAndHalfInitializer calls its two initialisers", "C15", "HalfAndHalfInitializer called initialisers as functions (TypeError)"),
    ("lexicase selection reshuffles the cases", "C17", "lexicase: only the first winner of a pass was filtered, later winners were drawn unfiltered"),
    ("FullInitializer(max_depth) never exceeds max_depth", "C03", "FullInitializer(d) / PositionIndependentGrowInitializer(d) returned trees of depth d+1 on grammars where FullDecider's fallback is taken (also C04: programs outside L(G,d))"),
    ("a multi-objective evaluation invokes the fitness function once", "C13", "MultiObjectiveProblem.evaluate invoked the fitness function twice per evaluation (default aggregate recomputed it); counter != invocations; aggregate not from the recorded components (also C12 with a non-repeatable landscape)"),
    ("stack mapping treats an abstract type without productions", "C01", "stack mapping raised KeyError for an abstract type that has no production (shape S22)"),
    ("usable_grammar accepts reachable abstract types", "C05", "usable_grammar hit 'assert False' on a reachable abstract type without productions (shape S22)"),
    ("ProgressivelyTerminalDecider respects production weights when its depth heuristic is zero", "C19", "ProgressivelyTerminalDecider fell through to the first alternative (even a zero-weight one) whenever its depth heuristic was zero for every alternative"),
    ("each FitnessK column of the CSV log", "C20", "every FitnessK column of the CSV log held the last fitness component (late-binding closure)"),
    ("SimpleGP's extra CSV fields each call their own callback", "C20", "every SimpleGP csv_extra_fields column was computed with the last callback (late-binding closure)"),
    ("RandomizeParallelStep falls back to equal weights", "C15", "RandomizeParallelStep: four zero draws for the new weights made the next generation die with ZeroDivisionError in compute_ranges"),
    ("FeedbackParallelStep hands its sub-steps the materialised population", "C15", "FeedbackParallelStep gave its sub-steps the raw input iterator after consuming it: on a one-shot iterator (e.g. after a selection step in a SequenceStep) only the novelty share was produced (2 of 6)"),
    ("EvaluateStep materialises its input", "C15", "EvaluateStep consumed a one-shot input iterator while evaluating and then yielded nothing (0 of 6 after a selection step), and ignored target_size on lists"),
    ("node labels in expansion-depthing mode look up the abstract class itself", "C11", "with expansion_depthing=True a field declared Annotated[<abstract class>, <refinement>] (the shape of the dependent-types test grammar) got node labels inflated by 1000000 per field (defaultdict miss on the Annotated alias, which also grew grammar.abstract_dist_to_t), and a decorator-abstract class inside Annotated was not recognised as abstract at all"),
    ("CooperativeGP builds its default representations", "C01", "CooperativeGP(g1, g2, f) with the documented default random=None built its default representations around MaxDepthDecider(None, ..): the first creation died with AttributeError (a foreign exception)"),
    ("return a best individual for multi-objective problems instead of None", "C12", "RandomSearch, HC and OnePlusOne returned None for a multi-objective problem (the multi-objective tracker had no get_best_individual)"),
    ("writes the normalised weight back to abstract layers", "C19", "a nested abstract class that is not listed among the considered subtypes never got its normalised weight written back: its rule did not sum to one and the weights of its siblings drifted at every re-extraction (0.5, 0.33, ...)"),
    ("restarts its expanding phase for every tree", "C07", "with a concrete start symbol the PI-grow decider never re-entered its expanding phase after its first tree (its reset only fired for a decision taken at the root): the state left on a decider object shared with a GE / SGE representation changed what the next mapping of the same genotype returned"),
    ("never picks an alternative that derives nothing", "C01", "ProgressivelyTerminalDecider picked an abstract class without productions when it was listed first among the alternatives (negative heuristic weights made choice_weighted fall through to the first option) and creation returned an instance of the abstract class itself"),
    ("Grammar.collect_types visits every type once", "C01", "a concrete class that reaches itself through a Union (Cons(head, tail: Union[Cons, Nil])) made Grammar.collect_types / get_all_mentioned_symbols recurse forever: every stack-based mapping over such a grammar died with RecursionError (a foreign exception)"),
]

log = subprocess.check_output(["git", "-C", "/repo", "log", "--format=%h %s"]).decode().splitlines()
fixes = [l for l in log if l.split(" ", 1)[1].startswith("fix:")]
out, used = [], set()
for key, prop, what in TABLE:
    hit = [l for l in fixes if key in l]
    if len(hit) != 1:
        print("WARNING: no unique commit for", key, hit, file=sys.stderr)
        continue
    used.add(hit[0])
    out.append(f"fixed: property={prop} {hit[0].split()[0]} {what}")
for l in fixes:
    if l not in used:
        print("WARNING: fix commit not in table:", l, file=sys.stderr)
p = "/verif/known_findings.json"
d = json.load(open(p))
d["fixed"] = out
json.dump(d, open(p, "w"), indent=1)
print(len(out), "fixed entries")
