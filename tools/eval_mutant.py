#!/usr/bin/env python3
"""Confirms a seeded change and records it under /verif/seeded/<id>/.

usage: eval_mutant.py <id> <patch.diff> <demo.py> <meta.json> [--checks C01,C02,...] [--no-suite]
Steps (all in a scratch worktree of /repo's HEAD, removed afterwards):
  1. demo on the unchanged tree must exit 0; 2. patch must apply; 3. demo on the changed tree must exit != 0;
  4. the pinned test-suite must still pass (120 stable tests, xdist); 5. every listed quick check is run against the
  changed tree (VERIF_REPO), recording exit code and the first VIOLATION line.
"""
import json, os, shutil, subprocess, sys, tempfile, time

def sh(cmd, **kw):
    return subprocess.run(cmd, shell=True, capture_output=True, text=True, **kw)

def main():
    mid, patch, demo, meta = sys.argv[1:5]
    checks = [f"C{i:02d}" for i in range(1, 21)]
    suite = True
    for a in sys.argv[5:]:
        if a.startswith("--checks"):
            checks = a.split("=", 1)[1].split(",")
        if a == "--no-suite":
            suite = False
    scr = tempfile.mkdtemp(prefix="verif_mut_")
    wt = os.path.join(scr, "repo")
    out = {"id": mid}
    try:
        assert sh(f"git -C /repo worktree add -q --detach {wt} HEAD").returncode == 0
        env = dict(os.environ, PYTHONPATH=wt, PYTHONDONTWRITEBYTECODE="1")
        r0 = subprocess.run(["/venv/bin/python", demo], cwd=wt, env=env, capture_output=True, text=True, timeout=1800)
        out["demo_unchanged_rc"] = r0.returncode
        ap = sh(f"git -C {wt} apply {patch}")
        out["applies"] = ap.returncode == 0
        if not out["applies"]:
            out["error"] = ap.stderr[-300:]
            print(json.dumps(out)); return 1
        r1 = subprocess.run(["/venv/bin/python", demo], cwd=wt, env=env, capture_output=True, text=True, timeout=1800)
        out["demo_changed_rc"] = r1.returncode
        out["demo_changed_tail"] = (r1.stdout + r1.stderr)[-300:]
        if suite:
            t = time.time()
            s = sh(f"NPROC={os.environ.get('NPROC','8')} /verif/tools/run_suite.sh {wt}", timeout=7200)
            out["suite"] = s.stdout.strip().splitlines()[-1] if s.stdout.strip() else s.stderr[-200:]
            out["suite_s"] = round(time.time() - t)
        res = {}
        e2 = dict(os.environ, VERIF_REPO=wt, VERIF_EVIDENCE_DIR=os.path.join(scr, "ev"), VERIF_REPLAY_DIR=os.path.join(scr, "rp"))
        os.makedirs(e2["VERIF_EVIDENCE_DIR"]); os.makedirs(e2["VERIF_REPLAY_DIR"])
        for c in checks:
            p = subprocess.run(["/venv/bin/python", "run.py", c, "--tier", "quick"], cwd="/verif", env=e2, capture_output=True, text=True, timeout=3600)
            lines = p.stdout.splitlines()
            vio = [l for l in lines if l.startswith("VIOLATION")]
            detail = ""
            for i, l in enumerate(lines):
                if l.startswith("VIOLATION"):
                    detail = " | ".join(x.strip() for x in lines[i + 1:i + 3])[:400]
                    break
            herr = [l for l in lines if "HARNESS-ERROR" in l]
            res[c] = {"rc": p.returncode, "violations": len(vio), "first": detail, "harness_error": herr[:1]}
        out["checks"] = res
        out["detected_by"] = [c for c, v in res.items() if v["rc"] == 1]
        d = f"/verif/seeded/{mid}"
        os.makedirs(d, exist_ok=True)
        shutil.copy(patch, os.path.join(d, "patch.diff"))
        shutil.copy(demo, os.path.join(d, "demo.py"))
        m = json.load(open(meta)) if os.path.exists(meta) else {}
        m.update({"confirmed": out})
        json.dump(m, open(os.path.join(d, "meta.json"), "w"), indent=1)
        print(json.dumps({k: out[k] for k in ("id", "demo_unchanged_rc", "demo_changed_rc", "suite", "detected_by") if k in out}))
    finally:
        sh(f"git -C /repo worktree remove --force {wt}")
        shutil.rmtree(scr, ignore_errors=True)
    return 0

sys.exit(main())
