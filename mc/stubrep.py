"""Harness-side stub representation: integer genotypes, identity mapping, mutate / crossover that
draw from the supplied RandomSource.  It lets the real GeneticProgramming loop, steps, trackers,
evaluators, budgets and recorders be driven without grammar noise (DESIGN.md section 2, E3)."""
from __future__ import annotations

from dataclasses import dataclass

from geneticengine.random.sources import RandomSource
from geneticengine.representations.api import Representation, RepresentationWithCrossover, RepresentationWithMutation


@dataclass
class StubGenotype:
    v: int
    serial: int = 0  # creation order, makes individuals distinguishable in logs

    def __repr__(self):
        return f"g{self.v}#{self.serial}"


@dataclass(frozen=True)
class StubProgram:
    v: int

    def __repr__(self):
        return f"p{self.v}"


class StubRepresentation(Representation, RepresentationWithMutation, RepresentationWithCrossover):
    def __init__(self, k: int = 2):
        self.k = k  # genotype values range over 0..k
        self.serial = 0
        self.created: list = []
        self.map_calls = 0

    def _new(self, v) -> StubGenotype:
        self.serial += 1
        g = StubGenotype(v, self.serial)
        self.created.append(g)
        return g

    def create_genotype(self, random: RandomSource, **kwargs) -> StubGenotype:
        return self._new(random.randint(0, self.k))

    def genotype_to_phenotype(self, genotype: StubGenotype) -> StubProgram:
        self.map_calls += 1
        return StubProgram(genotype.v)

    def mutate(self, random: RandomSource, genotype: StubGenotype, **kwargs) -> StubGenotype:
        return self._new((genotype.v + random.randint(0, self.k)) % (self.k + 1))

    def crossover(self, random: RandomSource, parent1: StubGenotype, parent2: StubGenotype, **kwargs):
        if random.randint(0, 1) == 0:
            return self._new(parent1.v), self._new(parent2.v)
        return self._new(parent2.v), self._new(parent1.v)


class InvocationLog:
    """Append-only record of fitness-function invocations."""

    def __init__(self):
        self.calls: list = []

    def __len__(self):
        return len(self.calls)


def table_fitness(table, log: InvocationLog | None = None):
    """Fitness that is a function of the program: table[program.v]."""

    def ff(p):
        val = table[p.v % len(table)]
        if log is not None:
            log.calls.append((p.v, val))
        return val

    return ff


def indexed_fitness(seq, log: InvocationLog, default=0):
    """Landscape scripted by evaluation index: the i-th invocation returns seq[i]."""

    def ff(p):
        i = len(log.calls)
        val = seq[i] if i < len(seq) else default
        log.calls.append((getattr(p, "v", None), val))
        return val

    return ff
