"""E1 -- stateless choice-tree explorer over a scripted RandomSource.

`ExhaustiveSource` implements only the two abstract methods of the library's
`RandomSource` (randint, random_float) as *choice points*; every derived
primitive (choice, choice_weighted, shuffle, pop_random, random_bool,
normalvariate) is the library's own code running on top of them.

`explore(run, ...)` enumerates every execution of `run(source)` reachable by
answering the choice points in all possible ways (optionally bounded by a
number of deviations from the default answer), by depth-first prefix replay.
"""
from __future__ import annotations

import sys
from dataclasses import dataclass, field
from typing import Any, Callable, Iterator, Optional, Sequence

from geneticengine.random.sources import RandomSource

FULL_RANGE_MAX = 64  # randint ranges up to this width are enumerated completely


class HarnessError(Exception):
    """The harness itself misbehaved (non-determinism, vacuous run): exit 2, never a VIOLATION."""


class HorizonExceeded(BaseException):
    """An execution consumed more choice points than the explicit horizon (BaseException:
    library code catching Exception must not swallow it)."""


def default_wide_domain(lo: int, hi: int, hints: Sequence[int] = ()) -> list[int]:
    mid = lo + (hi - lo) // 2
    cand = [lo, lo + 1, lo + 2, lo + 3, mid, hi - 1, hi]
    out: list[int] = []
    for v in list(cand) + list(hints):
        if lo <= v <= hi and v not in out:
            out.append(v)
    return out


def gene_domain(alphabet: Sequence[int]):
    """Wide-range policy that answers from a fixed gene alphabet (clipped to the range)."""

    def dom(lo: int, hi: int, hints: Sequence[int] = ()) -> list[int]:
        out = []
        for v in list(alphabet) + list(hints):
            if lo <= v <= hi and v not in out:
                out.append(v)
        if not out:
            out = [lo]
        return out

    return dom


@dataclass
class Point:
    kind: str  # 'i' | 'f'
    lo: Any
    hi: Any
    n: int  # size of the domain
    abstracted: bool

    def sig(self):
        return (self.kind, self.lo, self.hi, self.n)


class ExhaustiveSource(RandomSource):
    def __init__(
        self,
        prefix: Sequence[int] = (),
        horizon: int = 100000,
        wide_domain: Callable[..., list[int]] = default_wide_domain,
        full_max: int = FULL_RANGE_MAX,
        float_fracs: Sequence[float] = (1e-9, 0.5, 1.0),
        strict: bool = True,
    ):
        self.prefix = list(prefix)
        self.horizon = horizon
        self.wide_domain = wide_domain
        self.full_max = full_max
        self.float_fracs = list(float_fracs)
        self.strict = strict
        self.points: list[Point] = []
        self.choices: list[int] = []
        self.values: list[Any] = []
        self.abstracted = 0
        self._hints: list[int] = []
        self.log: list[Any] = []  # optional event log (choice results etc.)

    # -- choice machinery -------------------------------------------------------------
    def _take(self, kind: str, lo, hi, domain: list, abstracted: bool):
        i = len(self.choices)
        if i >= self.horizon:
            raise HorizonExceeded(f"more than {self.horizon} choice points")
        if i < len(self.prefix):
            c = self.prefix[i]
            if c >= len(domain):
                if self.strict:
                    raise HarnessError(
                        f"replay divergence at point {i}: choice {c} outside domain of size {len(domain)} "
                        f"({kind},{lo},{hi})",
                    )
                c = c % len(domain)
        else:
            c = 0
        self.points.append(Point(kind, lo, hi, len(domain), abstracted))
        self.choices.append(c)
        v = domain[c]
        self.values.append(v)
        if abstracted:
            self.abstracted += 1
        return v

    def randint(self, min: int, max: int) -> int:  # noqa: A002
        if max < min:
            # same contract as random.Random.randint on an empty range
            raise ValueError(f"empty range for randint({min}, {max})")
        hints, self._hints = self._hints, []
        if max - min < self.full_max:
            return self._take("i", min, max, list(range(min, max + 1)), False)
        dom = self.wide_domain(min, max, hints)
        return self._take("i", min, max, dom, True)

    def random_float(self, min: float, max: float) -> float:  # noqa: A002
        dom = []
        for fr in self.float_fracs:
            v = min + (max - min) * fr
            if v not in dom:
                dom.append(v)
        return self._take("f", min, max, dom, True)

    # choice_weighted is NOT re-implemented: hints for the wide integer draw are computed
    # here so that every equivalence class of the library's comparison is hit, then the
    # library's own code runs.
    def choice_weighted(self, choices, weights):
        from itertools import accumulate

        try:
            acc = [int(x * 100000) for x in accumulate(weights)]
            hints = []
            for a in acc:
                hints.extend([a - 1, a, a + 1])
            self._hints = hints
        except Exception:
            self._hints = []
        r = RandomSource.choice_weighted(self, choices, weights)
        self._hints = []
        return r

    def choice(self, choices):
        r = RandomSource.choice(self, choices)
        self.log.append(("choice", r))
        return r


@dataclass
class Execution:
    prefix: tuple
    choices: tuple
    points: list
    result: Any
    exc: Optional[BaseException]
    source: Any
    capped: bool = False


@dataclass
class ExploreStats:
    executions: int = 0
    capped_paths: int = 0
    abstracted_points: int = 0
    full_points: int = 0
    max_points: int = 0
    truncated: bool = False  # max_execs hit: NOT exhaustive
    completed_dev_bound: Optional[int] = None

    def merge(self, o: "ExploreStats"):
        self.executions += o.executions
        self.capped_paths += o.capped_paths
        self.abstracted_points += o.abstracted_points
        self.full_points += o.full_points
        self.max_points = max(self.max_points, o.max_points)
        self.truncated = self.truncated or o.truncated

    def as_dict(self):
        return dict(self.__dict__)


def _rolling(points) -> list[int]:
    out = []
    h = 0
    for p in points:
        h = hash((h, p.sig()))
        out.append(h)
    return out


def explore(
    run: Callable[[ExhaustiveSource], Any],
    *,
    max_dev: Optional[int] = None,
    max_execs: Optional[int] = None,
    horizon: int = 100000,
    stats: Optional[ExploreStats] = None,
    source_kwargs: Optional[dict] = None,
    catch: tuple = (Exception,),
) -> Iterator[Execution]:
    """Enumerate all executions of run(source).  Depth-first, prefix replay.

    max_dev=None explores the whole choice tree; max_dev=k only executions with at most k
    non-default answers.  Exceptions of classes in `catch` raised by run() are captured in
    Execution.exc (they are observations, not harness failures).  HarnessError propagates.
    """
    st = stats if stats is not None else ExploreStats()
    skw = dict(source_kwargs or {})
    stack: list[tuple[tuple, Optional[int]]] = [((), None)]
    done_here = 0
    while stack:
        if max_execs is not None and done_here >= max_execs:
            st.truncated = True
            return
        prefix, expect = stack.pop()
        src = ExhaustiveSource(prefix, horizon=horizon, **skw)
        result = None
        exc: Optional[BaseException] = None
        capped = False
        try:
            result = run(src)
        except HorizonExceeded:
            capped = True
        except HarnessError:
            raise
        except RecursionError as e:  # observation: the library blew the stack
            exc = e
        except catch as e:  # noqa: B030
            exc = e
        if len(src.choices) < len(prefix) and not capped:
            raise HarnessError(
                f"replay divergence: prefix of {len(prefix)} choices but execution consumed only {len(src.choices)}",
            )
        roll = _rolling(src.points)
        if expect is not None and prefix:
            if roll[len(prefix) - 1] != expect:
                raise HarnessError("replay divergence: choice-point signature changed while replaying a prefix")
        st.executions += 1
        done_here += 1
        if capped:
            st.capped_paths += 1
        st.abstracted_points += src.abstracted
        st.full_points += len(src.points) - src.abstracted
        st.max_points = max(st.max_points, len(src.points))
        yield Execution(tuple(prefix), tuple(src.choices), src.points, result, exc, src, capped)
        devs = sum(1 for c in prefix if c != 0)
        if max_dev is not None and devs + 1 > max_dev:
            continue
        ch = src.choices
        for i in range(len(ch) - 1, len(prefix) - 1, -1):
            n = src.points[i].n
            if n <= 1:
                continue
            base = tuple(ch[:i])
            for alt in range(n - 1, 0, -1):
                stack.append((base + (alt,), roll[i]))
    if max_dev is not None:
        st.completed_dev_bound = max_dev


def replay(run: Callable[[ExhaustiveSource], Any], choices: Sequence[int], **source_kwargs) -> Execution:
    """Run exactly one schedule (a plain unit test without the explorer)."""
    src = ExhaustiveSource(choices, **source_kwargs)
    result, exc = None, None
    try:
        result = run(src)
    except HorizonExceeded:
        return Execution(tuple(choices), tuple(src.choices), src.points, None, None, src, True)
    except HarnessError:
        raise
    except (Exception, RecursionError) as e:
        exc = e
    return Execution(tuple(choices), tuple(src.choices), src.points, result, exc, src)


class ScriptedSource(RandomSource):
    """Non-exploring source answering from an explicit list of *values* (not indices)."""

    def __init__(self, ints: Sequence[int] = (), floats: Sequence[float] = (), cyclic=True):
        self.ints = list(ints)
        self.floats = list(floats)
        self.i = 0
        self.f = 0
        self.cyclic = cyclic
        self.draws = 0

    def randint(self, min, max):  # noqa: A002
        self.draws += 1
        v = self.ints[self.i % len(self.ints)] if self.ints else 0
        self.i += 1
        return min + (v % (max - min + 1))

    def random_float(self, min, max):  # noqa: A002
        self.draws += 1
        v = self.floats[self.f % len(self.floats)] if self.floats else 0.5
        self.f += 1
        return min + (max - min) * v


class CountingSource(RandomSource):
    """Wraps a real source and counts base draws (monitor for C07)."""

    def __init__(self, inner: RandomSource):
        self.inner = inner
        self.draws = 0

    def randint(self, min, max):  # noqa: A002
        self.draws += 1
        return self.inner.randint(min, max)

    def random_float(self, min, max):  # noqa: A002
        self.draws += 1
        return self.inner.random_float(min, max)

    def normalvariate(self, mean, sigma):
        self.draws += 1
        return self.inner.normalvariate(mean, sigma)


MAXSIZE = sys.maxsize
