"""Grammar specs (JSON values) -> fresh class hierarchies, and the generated grammar families.

A spec is
  {"name": str,
   "abstract": [[name, parent|None, "ABC"|"decorator"|"ABC+dc"|"decorator+dc"], ...],
   "prods": [[name, parent|None, weight|None, [[field, TYPE], ...]], ...],
   "start": name,
   "considered": [names...] | None        (None = every class)}
TYPE is "int"|"bool"|"float"|"str"| ["ref",name] | ["list",T] | ["union",T,...] | ["tuple",T,...]
      | ["ann", T, MH]
MH is   ["IntRange",a,b] | ["IntList",[..]] | ["FloatRange",a,b] | ["FloatList",[..]] | ["VarRange",[..]]
      | ["LSB",a,b] | ["LSBW",a,b] | ["SSB",a,b,alphabet] | ["WSH",rows,alphabet] | ["IntervalRange",a,b,c]
      | ["Dep", "names", ["IntRangeFrom", hi]]        (lambda x: IntRange(x, hi))
      | ["Dep", "names", ["IntRangeSum", hi]]         (lambda x, y: IntRange(min(x,y), hi))
      | ["Dep", "names", ["VarRangeOf", [[..],[..]]]] (lambda x: VarRange(table[x]))
      | ["Dep", "names", ["LSBUpTo"]]                 (lambda x: ListSizeBetween(0, x))
Classes are created fresh at every build (weights and __gengy__ live on the class).
"""
from __future__ import annotations

import itertools
import sys
import types
from abc import ABC, ABCMeta
from dataclasses import dataclass
from typing import Annotated, Any, Optional, Union

from geneticengine.grammar.decorators import abstract, weight
from geneticengine.grammar.metahandlers.base import MetaHandlerGenerator
from geneticengine.grammar.grammar import extract_grammar
from geneticengine.grammar.metahandlers.dependent import Dependent
from geneticengine.grammar.metahandlers.floats import FloatList, FloatRange
from geneticengine.grammar.metahandlers.ints import IntervalRange, IntList, IntRange
from geneticengine.grammar.metahandlers.lists import ListSizeBetween, ListSizeBetweenWithoutListOperations
from geneticengine.grammar.metahandlers.strings import StringSizeBetween, WeightedStringHandler
from geneticengine.grammar.metahandlers.vars import VarRange

_counter = itertools.count()

BASE = {"int": int, "bool": bool, "float": float, "str": str}


def dep_predicate_handler(fn, values):
    """Reference evaluation of the dependent-function mini language: returns an MH spec."""
    kind = fn[0]
    if kind == "IntRangeFrom":
        return ["IntRange", values[0], fn[1]]
    if kind == "IntRangeSum":
        return ["IntRange", min(values), fn[1]]
    if kind == "VarRangeOf":
        return ["VarRange", fn[1][values[0]]]
    if kind == "LSBUpTo":
        return ["LSB", 0, values[0]]
    if kind == "IntRangeHiLo":  # dependencies are named (hi, lo) in this order: hi-lo .. hi
        return ["IntRange", values[0] - values[1], values[0]]
    raise ValueError(fn)


def _dep_callable(fn):
    kind = fn[0]
    if kind == "IntRangeFrom":
        hi = fn[1]
        return lambda x: IntRange(x, hi)
    if kind == "IntRangeSum":
        hi = fn[1]
        return lambda *xs: IntRange(min(xs), hi)
    if kind == "VarRangeOf":
        table = fn[1]
        return lambda x: VarRange(list(table[x]))
    if kind == "LSBUpTo":
        return lambda x: ListSizeBetween(0, x)
    if kind == "IntRangeHiLo":
        return lambda hi, lo: IntRange(hi - lo, hi)
    raise ValueError(fn)


def make_mh(mh):
    k = mh[0]
    if k == "IntRange":
        return IntRange(mh[1], mh[2])
    if k == "IntList":
        return IntList(list(mh[1]))
    if k == "FloatRange":
        return FloatRange(mh[1], mh[2])
    if k == "FloatList":
        return FloatList(list(mh[1]))
    if k == "VarRange":
        return VarRange(list(mh[1]))
    if k == "LSB":
        return ListSizeBetween(mh[1], mh[2])
    if k == "LSBW":
        return ListSizeBetweenWithoutListOperations(mh[1], mh[2])
    if k == "SSB":
        return StringSizeBetween(mh[1], mh[2], mh[3])
    if k == "WSH":
        import numpy as np

        return WeightedStringHandler(np.array(mh[1]), list(mh[2]))
    if k == "IntervalRange":
        return IntervalRange(mh[1], mh[2], mh[3])
    if k == "Dep":
        return Dependent(mh[1], _dep_callable(mh[2]))
    if k == "Pass":
        return PassThrough()
    raise ValueError(mh)


class PassThrough(MetaHandlerGenerator):
    """A user-written refinement that accepts everything and generates through the normal recursion: the way the
    library's own test grammars wrap abstract types (`Annotated[Expr, Dependent(..)]`) without restricting them."""

    def validate(self, v) -> bool:
        return True

    def generate(self, random, grammar, base_type, rec, dependent_values, **kwargs):
        return rec(base_type)

    def __repr__(self):
        return "PassThrough()"


class OrderMeta(ABCMeta):
    """Metaclass whose instances (classes) have a harness-dictated hash: lets a check
    enumerate every iteration order of the grammar's symbol *sets* in one process."""

    _table: dict[str, int] = {}

    def __hash__(cls):
        t = OrderMeta._table
        key = cls.__module__ + "." + cls.__qualname__
        if key in t:
            return t[key]
        return type.__hash__(cls)

    def __eq__(cls, other):
        return cls is other


class Bundle:
    def __init__(self, spec, classes, module, start, considered):
        self.spec = spec
        self.classes = classes  # name -> class
        self.module = module
        self.start = start
        self.considered = considered

    def extract(self, expansion_depthing: bool = False):
        return extract_grammar(list(self.considered), self.start, expansion_depthing)

    def cleanup(self):
        sys.modules.pop(self.module.__name__, None)


def mh_src(mh, ns) -> str:
    """Python source of a refinement (for grammars declared under `from __future__ import annotations`)."""
    k = mh[0]
    if k in ("IntRange", "FloatRange"):
        return f"{k}({mh[1]!r}, {mh[2]!r})"
    if k in ("IntList", "FloatList", "VarRange"):
        return f"{k}({list(mh[1])!r})"
    if k == "LSB":
        return f"ListSizeBetween({mh[1]!r}, {mh[2]!r})"
    if k == "LSBW":
        return f"ListSizeBetweenWithoutListOperations({mh[1]!r}, {mh[2]!r})"
    if k == "SSB":
        return f"StringSizeBetween({mh[1]!r}, {mh[2]!r}, {mh[3]!r})"
    if k == "WSH":
        return f"WeightedStringHandler(np.array({mh[1]!r}), {list(mh[2])!r})"
    if k == "IntervalRange":
        return f"IntervalRange({mh[1]!r}, {mh[2]!r}, {mh[3]!r})"
    if k == "Dep":
        name = f"_dep{len([x for x in ns if x.startswith('_dep')])}"
        ns[name] = _dep_callable(mh[2])
        return f"Dependent({mh[1]!r}, {name})"
    raise ValueError(mh)


def type_src(t, ns) -> str:
    if isinstance(t, str):
        return t
    k = t[0]
    if k == "ref":
        return t[1]
    if k == "list":
        return f"list[{type_src(t[1], ns)}]"
    if k == "union":
        return "Union[" + ", ".join(type_src(x, ns) for x in t[1:]) + "]"
    if k == "tuple":
        return "tuple[" + ", ".join(type_src(x, ns) for x in t[1:]) + "]"
    if k == "ann":
        return f"Annotated[{type_src(t[1], ns)}, {mh_src(t[2], ns)}]"
    raise ValueError(t)


def build(spec, hash_order: Optional[dict[str, int]] = None, modname: Optional[str] = None) -> Bundle:
    # modname: declare the classes under a given module name (a grammar factory called twice, a notebook cell run
    # again: new class objects with the module and qualified names of earlier ones)
    modname = modname or f"verif_grammar_{next(_counter)}"
    mod = types.ModuleType(modname)
    sys.modules[modname] = mod
    classes: dict[str, type] = {}
    ns = mod.__dict__
    stringify = bool(spec.get("stringify"))
    if stringify:
        import numpy as np

        ns.update(dict(Annotated=Annotated, Union=Union, IntRange=IntRange, IntList=IntList, FloatRange=FloatRange,
                       FloatList=FloatList, VarRange=VarRange, ListSizeBetween=ListSizeBetween,
                       ListSizeBetweenWithoutListOperations=ListSizeBetweenWithoutListOperations,
                       StringSizeBetween=StringSizeBetween, WeightedStringHandler=WeightedStringHandler,
                       IntervalRange=IntervalRange, Dependent=Dependent, np=np))

    def ty(t) -> Any:
        if isinstance(t, str):
            return BASE[t]
        k = t[0]
        if k == "ref":
            return classes[t[1]] if t[1] in classes else t[1]  # forward reference by name
        if k == "list":
            return list[ty(t[1])]
        if k == "union":
            return Union[tuple(ty(x) for x in t[1:])]
        if k == "tuple":
            return tuple[tuple(ty(x) for x in t[1:])]
        if k == "ann":
            return Annotated[ty(t[1]), make_mh(t[2])]
        raise ValueError(t)

    use_meta = hash_order is not None
    for name, parent, how in spec["abstract"]:
        as_dataclass = how.endswith("+dc")  # the abstract class is itself a (field-less) dataclass
        how = how.split("+")[0]
        if parent is None:
            if how == "ABC":
                bases: tuple = (ABC,)
            else:
                bases = ()
        else:
            bases = (classes[parent],)
        kw = {"__module__": modname, "__qualname__": name}
        if use_meta:
            cls = OrderMeta(name, bases or (object,), kw)
        else:
            cls = (ABCMeta if how == "ABC" and parent is None else type)(name, bases or (object,), kw)
        if as_dataclass:
            cls.__annotations__ = {}
            cls = dataclass(cls)
        if how == "decorator" or parent is not None:
            cls = abstract(cls)
        classes[name] = cls
        ns[name] = cls
    # two passes: first every production class exists (no annotations yet), then the annotations are set
    # with real class objects and the dataclass machinery is applied in place -- no string forward
    # references (typing caches Union[...] objects, and an evaluated ForwardRef inside a cached Union
    # would leak a class of an earlier build into a later one)
    for name, parent, w, fields in spec["prods"]:
        bases = (classes[parent],) if parent is not None else ()
        kw = {"__module__": modname, "__qualname__": name}
        if use_meta:
            cls = OrderMeta(name, bases or (object,), kw)
        else:
            meta = type(bases[0]) if bases else type
            cls = meta(name, bases or (object,), kw)
        classes[name] = cls
        ns[name] = cls
    for name, parent, w, fields in spec["prods"]:
        cls = classes[name]
        if stringify:
            # as in a module that starts with `from __future__ import annotations`: annotations are source
            # strings, re-evaluated (with fresh refinement objects) by every get_type_hints call
            cls.__annotations__ = {fn: type_src(ft, ns) for fn, ft in fields}
        else:
            cls.__annotations__ = {fn: ty(ft) for fn, ft in fields}
        cls = dataclass(cls)
        if w is not None:
            cls = weight(w)(cls)
        classes[name] = cls
        ns[name] = cls
    if use_meta:
        for name in classes:
            OrderMeta._table[modname + "." + name] = hash_order.get(name, 0)
    considered_names = spec.get("considered")
    if considered_names is None:
        considered_names = [a[0] for a in spec["abstract"]] + [p[0] for p in spec["prods"]]
    considered = [classes[n] for n in considered_names]
    return Bundle(spec, classes, mod, classes[spec["start"]], considered)


def build_type(t, classes) -> Any:
    """Python type object for a spec TYPE, given the classes of a bundle."""
    if isinstance(t, str):
        return BASE[t]
    k = t[0]
    if k == "ref":
        return classes[t[1]]
    if k == "list":
        return list[build_type(t[1], classes)]
    if k == "union":
        return Union[tuple(build_type(x, classes) for x in t[1:])]
    if k == "tuple":
        return tuple[tuple(build_type(x, classes) for x in t[1:])]
    if k == "ann":
        return Annotated[build_type(t[1], classes), make_mh(t[2])]
    raise ValueError(t)


def respec_field(spec, cls_name, field, new_t):
    """Copy of the spec with one field type replaced."""
    s = dict(spec)
    s["name"] = spec["name"] + f"+reannotated({cls_name}.{field})"
    s["prods"] = [
        [p[0], p[1], p[2], [[fn, (new_t if (p[0] == cls_name and fn == field) else ft)] for fn, ft in p[3]]] for p in spec["prods"]
    ]
    return s


# ---------------------------------------------------------------------------------------
# spec helpers


def spec_types(spec):
    """name -> list of (field, TYPE) for productions; abstract names -> None."""
    out = {a[0]: None for a in spec["abstract"]}
    for name, parent, w, fields in spec["prods"]:
        out[name] = fields
    return out


def spec_parent(spec):
    out = {a[0]: a[1] for a in spec["abstract"]}
    for name, parent, w, fields in spec["prods"]:
        out[name] = parent
    return out


def children_of(spec, name):
    """Direct subclasses among the spec's classes, in declaration order."""
    out = []
    for a in spec["abstract"]:
        if a[1] == name:
            out.append(a[0])
    for p in spec["prods"]:
        if p[1] == name:
            out.append(p[0])
    return out


def walk_type(t):
    yield t
    if isinstance(t, list):
        if t[0] in ("list", "ann"):
            yield from walk_type(t[1])
        elif t[0] in ("union", "tuple"):
            for x in t[1:]:
                yield from walk_type(x)


def has_form(spec, pred) -> bool:
    for p in spec["prods"]:
        for _, ft in p[3]:
            for t in walk_type(ft):
                if pred(t):
                    return True
    return False


def is_form(kind):
    return lambda t: isinstance(t, list) and t[0] == kind


# ---------------------------------------------------------------------------------------
# type alphabet and families

IR01 = ["ann", "int", ["IntRange", 0, 1]]
IR22 = ["ann", "int", ["IntRange", 2, 2]]
IL13 = ["ann", "int", ["IntList", [1, 3]]]
VRxy = ["ann", "str", ["VarRange", ["x", "y"]]]
FL = ["ann", "float", ["FloatList", [0.5, 1.5]]]
FR = ["ann", "float", ["FloatRange", 0.0, 1.0]]
SSB = ["ann", "str", ["SSB", 1, 2, "ab"]]
SSB0 = ["ann", "str", ["SSB", 0, 1, "a"]]
WSH = ["ann", "str", ["WSH", [[0.5, 0.5], [1.0, 0.0]], ["a", "b"]]]
WSH2 = ["ann", "str", ["WSH", [[2.0, 2.0], [3.0, 1.0]], ["a", "b"]]]  # rows given as counts, not normalised
IVR = ["ann", ["tuple", "int", "int"], ["IntervalRange", 1, 2, 4]]


def ref(n):
    return ["ref", n]


def lst(t):
    return ["list", t]


def lsb(t, a, b):
    return ["ann", ["list", t], ["LSB", a, b]]


def lsbw(t, a, b):
    return ["ann", ["list", t], ["LSBW", a, b]]


def finite_alphabet(A="A", L="L"):
    """Field types with finitely many values (C04's finite-choice family)."""
    return [
        IR01,
        IR22,
        IL13,
        VRxy,
        FL,
        "bool",
        ref(A),
        ref(L),
        lsb(ref(A), 0, 2),
        lsb(ref(A), 1, 2),
        lsb(ref(L), 1, 2),
        lsb(IR01, 0, 2),
        lsbw(ref(A), 0, 1),
        ["union", ref(A), ref(L)],
        ["union", IR01, ref(L)],
        ["tuple", IR01, IR01],
        ["tuple", ref(A), IR01],
        ["tuple", IR01, ref(A)],
        SSB,
        SSB0,
        WSH,
        IVR,
        WSH2,
        lsb(lsb(IR01, 1, 1), 1, 2),  # a size-refined list of size-refined lists
    ]


def infinite_alphabet(A="A", L="L"):
    return [
        "int",
        "float",
        "str",
        FR,
        lst(ref(A)),
        lst(ref(L)),
        lst("int"),
        lst(IR01),
        ["union", "int", ref(L)],
        ["tuple", "int", "bool"],
    ]


def _one_abstract(name, probe_fields, leaf=True, extra=None):
    prods = []
    if leaf:
        prods.append(["L", "A", None, [["v", IR01]]])
    prods.append(["P", "A", None, [[f"f{i}", t] for i, t in enumerate(probe_fields)]])
    if extra:
        prods.extend(extra)
    return {"name": name, "abstract": [["A", None, "ABC"]], "prods": prods, "start": "A"}


def family_one_abstract(alphabet, max_fields=2, tag="F1"):
    """A -> L(v:0..1) | P(f0:T0[, f1:T1]) for every field tuple over the alphabet."""
    for n in range(0, max_fields + 1):
        for combo in itertools.product(range(len(alphabet)), repeat=n):
            fields = [alphabet[i] for i in combo]
            yield _one_abstract(f"{tag}:" + ",".join(map(str, combo)), fields)


def family_shapes():
    """Hand-enumerated structural shapes: nested abstract layers, mutual recursion, unreachable
    classes, decorator-abstract, concrete start symbols, dependent refinements."""
    out = []
    # S1 README-like expression grammar
    out.append(
        {
            "name": "S1:expr",
            "abstract": [["E", None, "ABC"]],
            "prods": [
                ["Lit", "E", None, [["v", IR01]]],
                ["Var", "E", None, [["n", VRxy]]],
                ["Plus", "E", None, [["l", ref("E")], ["r", ref("E")]]],
            ],
            "start": "E",
        },
    )
    # S2 nested abstract layer via @abstract
    out.append(
        {
            "name": "S2:nested",
            "abstract": [["A", None, "ABC"], ["B", "A", "decorator"]],
            "prods": [
                ["L", "A", None, [["v", IR01]]],
                ["M", "B", None, [["v", IR22]]],
                ["N", "B", None, [["a", ref("A")]]],
            ],
            "start": "A",
        },
    )
    # S3 mutual recursion over two abstract types
    out.append(
        {
            "name": "S3:mutual",
            "abstract": [["A", None, "ABC"], ["B", None, "ABC"]],
            "prods": [
                ["L", "A", None, [["v", IR01]]],
                ["P", "A", None, [["b", ref("B")]]],
                ["M", "B", None, [["v", "bool"]]],
                ["Q", "B", None, [["a", ref("A")], ["k", IR01]]],
            ],
            "start": "A",
        },
    )
    # S4 unreachable classes and a decorator-abstract root
    out.append(
        {
            "name": "S4:unreachable",
            "abstract": [["A", None, "decorator"], ["Z", None, "ABC"]],
            "prods": [
                ["L", "A", None, [["v", IR01]]],
                ["P", "A", None, [["x", ref("A")]]],
                ["U", "Z", None, [["v", IR01]]],
                ["W", None, None, [["z", ref("Z")]]],
            ],
            "start": "A",
        },
    )
    # S5 concrete start symbol (type_safety_test shape)
    out.append(
        {
            "name": "S5:concrete-start",
            "abstract": [["R", None, "ABC"]],
            "prods": [
                ["Leaf", "R", None, []],
                ["Other", "R", None, []],
                ["Under", "R", None, [["a", ref("Leaf")], ["b", ref("R")]]],
            ],
            "start": "Under",
            "considered": ["Leaf", "Other"],
        },
    )
    # S6 dependent refinement (dependent_types_test shape)
    out.append(
        {
            "name": "S6:dependent",
            "abstract": [],
            "prods": [
                [
                    "Pair",
                    None,
                    None,
                    [["a", ["ann", "int", ["IntRange", 0, 2]]], ["b", ["ann", "int", ["Dep", "a", ["IntRangeFrom", 3]]]]],
                ],
            ],
            "start": "Pair",
        },
    )
    # S7 dependent refinement under an abstract type, with a list sibling and two dependencies
    out.append(
        {
            "name": "S7:dependent-rec",
            "abstract": [["A", None, "ABC"]],
            "prods": [
                ["L", "A", None, [["v", IR01]]],
                [
                    "D",
                    "A",
                    None,
                    [
                        ["a", IR01],
                        ["b", IR01],
                        ["c", ["ann", "int", ["Dep", "a,b", ["IntRangeSum", 1]]]],
                        ["k", ref("A")],
                    ],
                ],
            ],
            "start": "A",
        },
    )
    # S8 dependent var range / dependent list size
    out.append(
        {
            "name": "S8:dependent-var",
            "abstract": [["A", None, "ABC"]],
            "prods": [
                ["L", "A", None, [["v", IR01]]],
                [
                    "D",
                    "A",
                    None,
                    [
                        ["a", IR01],
                        ["n", ["ann", "str", ["Dep", "a", ["VarRangeOf", [["p"], ["q", "r"]]]]]],
                        ["xs", ["ann", ["list", ref("L")], ["Dep", "a", ["LSBUpTo"]]]],
                    ],
                ],
            ],
            "start": "A",
        },
    )
    # S9 three-level nesting, list of the middle layer
    out.append(
        {
            "name": "S9:three-level",
            "abstract": [["A", None, "ABC"], ["B", "A", "decorator"], ["C", "B", "decorator"]],
            "prods": [
                ["L", "C", None, [["v", IR01]]],
                ["M", "B", None, [["xs", lsb(ref("C"), 1, 2)]]],
                ["N", "A", None, [["b", ref("B")]]],
            ],
            "start": "A",
        },
    )
    # S10 weighted productions
    out.append(
        {
            "name": "S10:weighted",
            "abstract": [["A", None, "ABC"]],
            "prods": [
                ["L", "A", 3, [["v", IR01]]],
                ["Z", "A", 0, [["v", IR22]]],
                ["P", "A", 1, [["x", ref("A")]]],
            ],
            "start": "A",
        },
    )
    # S11 field-less productions + list of abstract without annotation
    out.append(
        {
            "name": "S11:fieldless-list",
            "abstract": [["A", None, "ABC"]],
            "prods": [
                ["T", "A", None, []],
                ["F", "A", None, []],
                ["And", "A", None, [["xs", lst(ref("A"))]]],
            ],
            "start": "A",
        },
    )
    # S12 union of two abstract layers and tuple fields
    out.append(
        {
            "name": "S12:union-tuple",
            "abstract": [["A", None, "ABC"], ["B", None, "ABC"]],
            "prods": [
                ["L", "A", None, [["v", IR01]]],
                ["M", "B", None, [["w", VRxy]]],
                ["U", "A", None, [["u", ["union", ref("A"), ref("B")]]]],
                ["T", "A", None, [["t", ["tuple", ref("B"), IR01]]]],
            ],
            "start": "A",
        },
    )
    # S13 the only production carries a bare bool (minimum depth 1)
    out.append(
        {
            "name": "S13:bool-only",
            "abstract": [["A", None, "ABC"]],
            "prods": [["P", "A", None, [["b", "bool"]]], ["Q", "A", None, [["a", ref("A")], ["b", "bool"]]]],
            "start": "A",
        },
    )
    # S14 union of a deep and a shallow alternative under a concrete start symbol (minimum depth 1)
    out.append(
        {
            "name": "S14:union-min",
            "abstract": [],
            "prods": [
                ["K", None, None, [["k", IR01]]],
                ["D", None, None, [["d", ref("K")]]],
                ["U", None, None, [["u", ["union", ref("D"), IR01]]]],
            ],
            "start": "U",
        },
    )
    # S15 recursion only through a tuple field
    out.append(
        {
            "name": "S15:tuple-rec",
            "abstract": [["A", None, "ABC"]],
            "prods": [
                ["L", "A", None, [["v", IR01]]],
                ["T", "A", None, [["t", ["tuple", ref("A"), IR01]]]],
            ],
            "start": "A",
        },
    )
    # S18 recursion only through the LAST component of a tuple and mutual recursion through a list of tuples
    out.append(
        {
            "name": "S18:tuple-rec-last",
            "abstract": [["A", None, "ABC"], ["B", None, "ABC"]],
            "prods": [
                ["L", "A", None, [["v", IR01]]],
                ["T", "A", None, [["t", ["tuple", IR01, "bool", ref("B")]]]],
                ["M", "B", None, [["w", VRxy]]],
                ["N", "B", None, [["xs", lsb(["tuple", IR01, ref("A")], 1, 1)]]],
            ],
            "start": "A",
        },
    )
    # S19 a dependent refinement whose dependency name also exists as a field of a nested concrete-typed sibling
    out.append(
        {
            "name": "S19:dependent-shadow",
            "abstract": [["A", None, "ABC"]],
            "prods": [
                ["W", None, None, [["a", IR01], ["k", IR01]]],
                ["L", "A", None, [["v", IR01]]],
                [
                    "C",
                    "A",
                    None,
                    [
                        ["a", IR01],
                        ["w", ref("W")],
                        ["n", ["ann", "str", ["Dep", "a", ["VarRangeOf", [["p"], ["q"]]]]]],
                        ["k", ["ann", "int", ["Dep", "a", ["IntRangeFrom", 1]]]],
                    ],
                ],
            ],
            "start": "A",
        },
    )
    # S20 a recursive production whose own minimum depth is 3 (mutual recursion with a single way back)
    out.append(
        {
            "name": "S20:deep-recursive",
            "abstract": [["A", None, "ABC"], ["B", None, "ABC"]],
            "prods": [
                ["L", "A", None, [["v", IR01]]],
                ["P", "A", None, [["b", ref("B")]]],
                ["Q", "B", None, [["a", ref("A")]]],
            ],
            "start": "A",
        },
    )
    # S21 float range declared with int literal bounds
    out.append(
        {
            "name": "S21:float-int-bounds",
            "abstract": [["A", None, "ABC"]],
            "prods": [
                ["L", "A", None, [["v", ["ann", "float", ["FloatRange", 0, 1]]]]],
                ["P", "A", None, [["x", ref("A")], ["w", ["ann", "float", ["FloatRange", -1, 1]]]]],
            ],
            "start": "A",
        },
    )
    # S22 an abstract type that has no production at all (an unused extension point) next to a usable one
    out.append(
        {
            "name": "S22:empty-abstract",
            "abstract": [["A", None, "ABC"], ["Z", None, "ABC"]],
            "prods": [
                ["L", "A", None, [["v", IR01]]],
                ["P", "A", None, [["z", ref("Z")]]],
                ["N", "A", None, [["x", ref("A")]]],
            ],
            "start": "A",
        },
    )
    # S23 a refinement that names its dependencies in another order than the fields are declared
    out.append(
        {
            "name": "S23:dependent-order",
            "abstract": [["A", None, "ABC"]],
            "prods": [
                ["L", "A", None, [["v", IR01]]],
                [
                    "R",
                    "A",
                    None,
                    [
                        ["lo", IR01],
                        ["hi", ["ann", "int", ["IntRange", 2, 3]]],
                        ["x", ["ann", "int", ["Dep", "hi,lo", ["IntRangeHiLo"]]]],
                    ],
                ],
            ],
            "start": "A",
        },
    )
    # S24 a union field after a sibling whose name also exists (with another type) in one of the alternatives
    out.append(
        {
            "name": "S24:union-name-clash",
            "abstract": [["A", None, "ABC"]],
            "prods": [
                ["L", "A", None, [["v", IR01]]],
                ["K", None, None, [["k", IR22]]],
                ["P", "A", None, [["v", ref("A")], ["u", ["union", ref("L"), ref("K")]]]],
            ],
            "start": "A",
        },
    )
    # S26 concrete recursive start symbol with a list of another (abstract) type that leads back to it
    out.append(
        {
            "name": "S26:concrete-rec-list",
            "abstract": [["N", None, "ABC"]],
            "prods": [
                ["Leaf", "N", None, [["v", IR01]]],
                ["T", None, None, [["v", IR01], ["kids", lsb(ref("N"), 0, 2)]]],
                ["Wrap", "N", None, [["t", ref("T")]]],
            ],
            "start": "T",
        },
    )
    # S27 abstract types that are themselves dataclasses (`@dataclass class String(ABC)`, `@abstract @dataclass class BinOp(Expr)`)
    out.append(
        {
            "name": "S27:abstract-dataclass",
            "abstract": [["A", None, "ABC+dc"], ["B", "A", "decorator+dc"]],
            "prods": [
                ["L", "A", None, [["v", IR01]]],
                ["M", "B", None, [["w", "bool"]]],
                ["N", "B", None, [["x", ref("A")], ["y", ref("B")]]],
                ["P", "A", None, [["b", ref("B")]]],
            ],
            "start": "A",
        },
    )
    # S28 a size-bounded list (minimum 1) whose elements carry a dependent refinement that has no value when a == 0:
    # the whole production is infeasible in that context and creation has to fall back to another one
    out.append(
        {
            "name": "S28:list-of-dependent",
            "abstract": [["A", None, "ABC"]],
            "prods": [
                ["L", "A", None, [["v", IR01]]],
                ["D", "A", None, [["a", IR01], ["ns", lsb(["ann", "str", ["Dep", "a", ["VarRangeOf", [[], ["q"]]]]], 1, 2)]]],
                ["N", "A", None, [["x", ref("A")]]],
            ],
            "start": "A",
        },
    )
    # S29 a nested abstract layer that is NOT listed among the considered subtypes (as in geml/grammars/regex.py): its
    # productions are found through the root all the same
    out.append(
        {
            "name": "S29:unlisted-nested-abstract",
            "abstract": [["A", None, "ABC"], ["B", "A", "decorator"]],
            "prods": [
                ["L", "A", None, [["v", IR01]]],
                ["M", "B", None, [["w", "bool"]]],
                ["N", "B", None, [["x", ref("A")], ["y", ref("A")]]],
            ],
            "start": "A",
            "considered": ["L", "M", "N"],
        },
    )
    # S30 abstract types declared inside Annotated[...] with a refinement that does not restrict them (the shape of
    # tests/representations/dependent_types_context_test.py), one of them a nested abstract layer
    out.append(
        {
            "name": "S30:annotated-abstract",
            "abstract": [["A", None, "ABC"], ["B", "A", "decorator"]],
            "prods": [
                ["L", "A", None, [["v", IR01]]],
                ["M", "B", None, [["w", "bool"]]],
                ["P", "A", None, [["x", ["ann", ref("A"), ["Pass"]]], ["y", ["ann", ref("B"), ["Pass"]]]]],
            ],
            "start": "A",
        },
    )
    # S31 like S23, with dependency names that are not in alphabetical order ("n,m")
    out.append(
        {
            "name": "S31:dependent-order-nm",
            "abstract": [["A", None, "ABC"]],
            "prods": [
                ["L", "A", None, [["v", IR01]]],
                ["R", "A", None, [["m", IR01], ["n", ["ann", "int", ["IntRange", 2, 3]]], ["x", ["ann", "int", ["Dep", "n,m", ["IntRangeHiLo"]]]]]],
            ],
            "start": "A",
        },
    )
    # S32 a concrete start symbol with two refined fields over the same base type (disjoint ranges)
    out.append(
        {
            "name": "S32:two-refined-ints",
            "abstract": [],
            "prods": [["W", None, None, [["lo", IR01], ["hi", ["ann", "int", ["IntRange", 2, 3]]]]]],
            "start": "W",
        },
    )
    # S33 a dependent refinement over negative values (hash(-1) == hash(-2) in CPython: anything keyed by the hash of the
    # sibling values confuses the two)
    out.append(
        {
            "name": "S33:dependent-negative",
            "abstract": [["A", None, "ABC"]],
            "prods": [
                ["L", "A", None, [["v", IR01]]],
                ["D", "A", None, [["a", ["ann", "int", ["IntRange", -2, -1]]], ["b", ["ann", "int", ["Dep", "a", ["IntRangeFrom", 0]]]]]],
                ["N", "A", None, [["x", ref("A")]]],
            ],
            "start": "A",
        },
    )
    # S34 a nested abstract layer without any production, listed first among the alternatives of its parent
    out.append(
        {
            "name": "S34:empty-nested-abstract-first",
            "abstract": [["A", None, "ABC"], ["B", "A", "decorator"]],
            "prods": [["L", "A", None, [["v", IR01]]], ["P", "A", None, [["x", ref("A")]]]],
            "start": "A",
        },
    )
    # S35 a union one of whose members is a container type (a size-refined list of nodes)
    out.append(
        {
            "name": "S35:union-with-list-member",
            "abstract": [["A", None, "ABC"]],
            "prods": [
                ["L", "A", None, [["v", IR01]]],
                ["W", "A", None, [["x", ref("A")]]],
                ["U", "A", None, [["u", ["union", lsb(ref("W"), 1, 2), ref("L")]]]],
            ],
            "start": "A",
        },
    )
    # S36 a concrete class that refers to itself directly (through a union), on no cycle through an abstract type
    out.append(
        {
            "name": "S36:direct-self-reference",
            "abstract": [],
            "prods": [["Nil", None, None, []], ["Cons", None, None, [["head", IR01], ["tail", ["union", ref("Cons"), ref("Nil")]]]]],
            "start": "Cons",
        },
    )
    # S37 a concrete child embedded directly as a field type; its dependent refinement names a sibling of its own that
    # has the same name as an earlier field of the enclosing class
    out.append(
        {
            "name": "S37:dependent-same-name-outside",
            "abstract": [],
            "prods": [
                ["C", None, None, [["a", ["ann", "int", ["IntRange", 2, 3]]], ["b", ["ann", "int", ["Dep", "a", ["IntRangeFrom", 3]]]]]],
                ["P", None, None, [["a", IR01], ["c", ref("C")]]],
            ],
            "start": "P",
        },
    )
    # S16 union of two abstract types of different minimum depth
    out.append(
        {
            "name": "S16:union-abstract",
            "abstract": [["A", None, "ABC"], ["B", None, "ABC"]],
            "prods": [
                ["L", "A", None, [["v", IR01]]],
                ["M", "B", None, [["a", ref("A")]]],
                ["U", "A", None, [["u", ["union", ref("B"), ref("L")]], ["w", "bool"]]],
            ],
            "start": "A",
        },
    )
    # S17 a production that is infeasible in some contexts: the dependent VarRange is empty when a == 0,
    # which makes creation backtrack to another production (dependent_types_context_test shape)
    out.append(
        {
            "name": "S17:backtrack",
            "abstract": [["A", None, "ABC"]],
            "prods": [
                ["L", "A", None, [["v", IR01]]],
                ["D", "A", None, [["a", IR01], ["n", ["ann", "str", ["Dep", "a", ["VarRangeOf", [[], ["q"]]]]]]]],
                ["N", "A", None, [["x", ref("A")]]],
            ],
            "start": "A",
        },
    )
    return out


def shape_single_production_backtrack():
    """S38: an inner abstract symbol with exactly ONE production, and that production is infeasible in some contexts
    (its dependent VarRange is empty when a == 0): B has nothing left to retry, P fails and A falls back to L."""
    return {
        "name": "S38:single-production-backtrack",
        "abstract": [["A", None, "ABC"], ["B", None, "ABC"]],
        "prods": [
            ["L", "A", None, [["v", IR01]]],
            ["P", "A", None, [["b", ref("B")]]],
            ["D", "B", None, [["a", IR01], ["n", ["ann", "str", ["Dep", "a", ["VarRangeOf", [[], ["q"]]]]]]]],
        ],
        "start": "A",
    }


def family_two_abstract(alphabet_fn, tag="F2"):
    """A -> L | P(x: B, f: T) ; B -> M(v:0..1) | N(a: A) for T over the alphabet (A-referencing)."""
    alpha = alphabet_fn("B", "M")
    for i, t in enumerate(alpha):
        yield {
            "name": f"{tag}:{i}",
            "abstract": [["A", None, "ABC"], ["B", None, "ABC"]],
            "prods": [
                ["L", "A", None, [["v", IR01]]],
                ["P", "A", None, [["x", ref("B")], ["f", t]]],
                ["M", "B", None, [["v", IR01]]],
                ["N", "B", None, [["a", ref("A")]]],
            ],
            "start": "A",
        }


def family_nested(alphabet_fn, tag="F3"):
    """A ⊇ B(@abstract) with a probe production under B, and a production under A pointing at B."""
    alpha = alphabet_fn("A", "L")
    for i, t in enumerate(alpha):
        yield {
            "name": f"{tag}:{i}",
            "abstract": [["A", None, "ABC"], ["B", "A", "decorator"]],
            "prods": [
                ["L", "A", None, [["v", IR01]]],
                ["M", "B", None, [["v", IR22]]],
                ["P", "B", None, [["f", t]]],
                ["Q", "A", None, [["b", ref("B")]]],
            ],
            "start": "A",
        }


def finite_family(tier: str):
    """Finite-choice grammars (every field has finitely many values)."""
    fa = finite_alphabet()
    out = list(family_one_abstract(fa, 1 if tier == "quick" else 2, "F1"))
    out += [s for s in family_shapes() if s["name"].split(":")[0] in
            ("S1", "S2", "S3", "S4", "S5", "S6", "S7", "S8", "S9", "S10", "S12", "S13", "S14", "S15", "S16", "S17", "S18", "S19", "S20", "S22", "S23", "S24", "S26", "S27", "S28", "S29", "S30", "S31", "S32", "S33", "S34", "S35", "S36", "S37")]
    out += list(family_two_abstract(finite_alphabet, "F2"))
    out += list(family_nested(finite_alphabet, "F3"))
    return out


def stringified(specs):
    out = []
    for sp in specs:
        s2 = dict(sp)
        s2["name"] = sp["name"] + "$str"
        s2["stringify"] = True
        out.append(s2)
    return out


def general_family(tier: str):
    """Finite family plus grammars with unbounded base types and un-annotated lists, plus variants of some
    grammars declared with string annotations (`from __future__ import annotations`)."""
    out = finite_family(tier)
    fa = finite_alphabet()
    pick = [s for s in family_shapes() if s["name"].split(":")[0] in ("S1", "S2", "S6", "S7", "S8", "S9", "S12", "S17", "S19", "S23", "S10", "S32")]
    pick += [_one_abstract(f"F1:{i}", [fa[i]]) for i in (0, 5, 8, 10, 13, 15, 17, 19, 20)]
    out += stringified(pick)
    ia = infinite_alphabet()
    out += list(family_one_abstract(ia, 1, "G1"))
    if tier != "quick":
        fa = finite_alphabet()
        for i, t in enumerate(ia):
            for j, u in enumerate(fa):
                out.append(_one_abstract(f"G2:{i},{j}", [t, u]))
    out += [s for s in family_shapes() if s["name"].startswith(("S11", "S21"))]
    out += list(family_two_abstract(infinite_alphabet, "G3"))
    return out


# ---------------------------------------------------------------------------------------
# named grammars that need hand-written refinements (not expressible as a spec)

CONTEXT_SPEC = {
    "name": "N:context", "named": "context", "start": "Expr",
    "abstract": [["Expr", None, "ABC"]],
    "prods": [["Literal", "Expr", None, [["v", ["ann", "int", ["IntRange", 0, 3]]]]], ["Let", "Expr", None, []], ["Var", "Expr", None, []]],
}


def build_named(spec) -> Bundle:
    """The dependent-types context grammar of tests/representations/dependent_types_context_test.py, re-declared:
    a context (list of names) is threaded through the tree by dependent refinements, `ctx + [name]` is injected
    into the body through rec(base_type, initial_values=...), and Var is infeasible under an empty context."""
    assert spec["named"] == "context"
    from geneticengine.grammar.metahandlers.base import MetaHandlerGenerator
    from geneticengine.solutions.tree import GengyList

    modname = f"verif_grammar_{next(_counter)}"
    mod = types.ModuleType(modname)
    sys.modules[modname] = mod

    class AnyContext(MetaHandlerGenerator):
        def generate(self, random, grammar, base_type, rec, dependent_values):
            return GengyList(str, [])

        def validate(self, v) -> bool:
            return True

    class ContextMH(MetaHandlerGenerator):
        def __init__(self, ctx):
            self.ctx = ctx

        def generate(self, random, grammar, base_type, rec, dependent_values):
            return rec(base_type, initial_values={"ctx": self.ctx})

        def validate(self, v) -> bool:
            return True

    Expr = ABCMeta("Expr", (ABC,), {"__module__": modname, "__qualname__": "Expr"})
    Literal = dataclass(ABCMeta("Literal", (Expr,), {"__module__": modname, "__qualname__": "Literal",
                                                     "__annotations__": {"v": Annotated[int, IntRange(0, 3)]}}))
    Let = ABCMeta("Let", (Expr,), {"__module__": modname, "__qualname__": "Let"})
    Let.__annotations__ = {
        "ctx": Annotated[list[str], AnyContext()],
        "name": Annotated[str, VarRange(["a", "b"])],
        "body": Annotated[Expr, Dependent("ctx,name", lambda ctx, name: ContextMH(ctx + [name]))],
    }
    Let = dataclass(Let)
    Var = ABCMeta("Var", (Expr,), {"__module__": modname, "__qualname__": "Var"})
    Var.__annotations__ = {
        "ctx": Annotated[list[str], AnyContext()],
        "name": Annotated[str, Dependent("ctx", lambda ctx: VarRange(ctx))],
    }
    Var = dataclass(Var)
    classes = {"Expr": Expr, "Literal": Literal, "Let": Let, "Var": Var}
    mod.__dict__.update(classes)
    return Bundle(spec, classes, mod, Expr, [Let, Var, Literal])
