"""Check runner plumbing: violations, replay files, known findings, evidence, parallel map."""
from __future__ import annotations

import hashlib
import json
import multiprocessing as mp
import os
import sys
import time
import traceback
from dataclasses import dataclass, field
from typing import Any, Callable, Iterable, Optional

VERIF = os.path.dirname(os.path.dirname(os.path.abspath(__file__)))
# (the two directories can be redirected while trying seeded changes, so that committed evidence is not overwritten)
EVIDENCE_DIR = os.environ.get("VERIF_EVIDENCE_DIR") or os.path.join(VERIF, "evidence")
REPLAY_DIR = os.environ.get("VERIF_REPLAY_DIR") or os.path.join(VERIF, "replays")
KNOWN = os.path.join(VERIF, "known_findings.json")

LEVEL = {"C20": "fault_enumeration"}


def jsonable(x, depth=0):
    if depth > 12:
        return "<deep>"
    if isinstance(x, (str, int, bool)) or x is None:
        return x
    if isinstance(x, float):
        if x != x or x in (float("inf"), float("-inf")):
            return repr(x)
        return x
    if isinstance(x, dict):
        return {str(k): jsonable(v, depth + 1) for k, v in x.items()}
    if isinstance(x, (list, tuple, set, frozenset)):
        return [jsonable(v, depth + 1) for v in x]
    return repr(x)[:300]


@dataclass
class Violation:
    """One oracle failure.  `site` names the public call, `kind` the broken clause, `feat`
    the features a known-finding entry may constrain, `witness` everything needed to replay."""

    prop: str
    site: str
    kind: str
    feat: dict
    witness: dict
    msg: str = ""

    def key(self):
        return (self.prop, self.site, self.kind, json.dumps(jsonable(self.feat), sort_keys=True))

    def as_dict(self):
        return {
            "property": self.prop,
            "site": self.site,
            "kind": self.kind,
            "features": jsonable(self.feat),
            "message": self.msg,
            "witness": jsonable(self.witness),
        }


@dataclass
class UnitResult:
    """What one work unit reports back to the runner (must be picklable)."""

    violations: list = field(default_factory=list)  # list[Violation]
    executions: int = 0  # executions of real library calls
    states: int = 0  # distinct canonical outcomes / states
    nontrivial: int = 0
    counters: dict = field(default_factory=dict)
    samples: list = field(default_factory=list)
    capped: int = 0
    abstracted: int = 0
    truncated: bool = False
    harness_error: Optional[str] = None

    def count(self, k, n=1):
        self.counters[k] = self.counters.get(k, 0) + n

    def add_violation(self, v: Violation, cap_per_key=3):
        k = v.key()
        n = sum(1 for x in self.violations if x.key() == k)
        self.counters["violations_seen"] = self.counters.get("violations_seen", 0) + 1
        if n < cap_per_key:
            self.violations.append(v)


def load_known():
    if not os.path.exists(KNOWN):
        return {"findings": [], "fixed": []}
    with open(KNOWN) as f:
        return json.load(f)


def match_known(v: Violation, findings) -> Optional[dict]:
    fv = jsonable(v.feat)
    for f in findings:
        if f.get("property") != v.prop:
            continue
        if f.get("site") != v.site or f.get("kind") != v.kind:
            continue
        where = f.get("where", {})
        ok = True
        for k, want in where.items():
            have = fv.get(k)
            if isinstance(want, list) and not isinstance(have, list):
                if have not in want:
                    ok = False
                    break
            elif have != want:
                ok = False
                break
        if ok:
            return f
    return None


def _worker(args):
    fn, unit = args
    try:
        return fn(unit)
    except BaseException as e:  # a crash of the harness in a unit is a harness error, never a violation
        r = UnitResult()
        r.harness_error = f"unit {unit!r:.200}: {type(e).__name__}: {e}\n{traceback.format_exc()[-1500:]}"
        return r


def pmap(fn: Callable, units: list, procs: Optional[int] = None, chunksize: int = 1, budget_s: Optional[float] = None) -> list:
    """Run fn over work units in a process pool (fork), preserving order.  With a time budget, units
    that have not been finished when it expires are skipped and reported (never silently)."""
    if procs is None:
        procs = int(os.environ.get("VERIF_PROCS", "0")) or min(16, os.cpu_count() or 1)
    t0 = time.time()
    out: list = []
    if procs <= 1 or len(units) <= 1:
        for u in units:
            if budget_s is not None and time.time() - t0 > budget_s:
                break
            out.append(_worker((fn, u)))
    else:
        ctx = mp.get_context("fork")
        with ctx.Pool(procs, maxtasksperchild=200) as pool:
            # unordered: a slow unit must not hold back the results of the units that finished after it
            it = (pool.imap if budget_s is None else pool.imap_unordered)(_worker, [(fn, u) for u in units], chunksize)
            for _ in range(len(units)):
                try:
                    if budget_s is None:
                        out.append(next(it))
                    else:
                        left = budget_s - (time.time() - t0)
                        if left <= 0:
                            break
                        out.append(it.next(timeout=left))
                except mp.TimeoutError:
                    break
                except StopIteration:
                    break
            pool.terminate()
    skipped = len(units) - len(out)
    if skipped:
        r = UnitResult()
        r.truncated = True
        r.counters["work_units_skipped_by_time_budget"] = skipped
        out.append(r)
    return out


class CheckRun:
    """Accumulates unit results of one check run and turns them into evidence + exit code."""

    def __init__(self, prop: str, tier: str, seed: int, rule: str, technique: str):
        self.prop = prop
        self.tier = tier
        self.seed = seed
        self.rule = rule
        self.technique = technique
        self.t0 = time.time()
        self.total = UnitResult()
        self.units = 0
        self.assumptions: list[str] = []
        self.extra: dict = {}
        self.guards: dict[str, int] = {}  # counters that must be > 0 (vacuity guards)
        self.exhaustive = True
        self.harness_errors: list[str] = []

    def absorb(self, r: UnitResult):
        self.units += 1
        t = self.total
        t.violations.extend(r.violations)
        t.executions += r.executions
        t.states += r.states
        t.nontrivial += r.nontrivial
        t.capped += r.capped
        t.abstracted += r.abstracted
        t.truncated = t.truncated or r.truncated
        for k, v in r.counters.items():
            t.counters[k] = t.counters.get(k, 0) + v
        for s in r.samples:
            if len(t.samples) < 12:
                t.samples.append(s)
        if r.harness_error:
            self.harness_errors.append(r.harness_error)

    def absorb_all(self, rs: Iterable[UnitResult]):
        for r in rs:
            self.absorb(r)

    def require(self, counter: str):
        self.guards[counter] = self.total.counters.get(counter, 0)

    def finish(self) -> int:
        os.makedirs(EVIDENCE_DIR, exist_ok=True)
        known = load_known()
        t = self.total
        new: dict = {}
        knownhits: dict = {}
        for v in t.violations:
            f = match_known(v, known.get("findings", []))
            if f is not None:
                knownhits.setdefault(f["id"], (f, []))[1].append(v)
            else:
                new.setdefault(v.key(), []).append(v)
        lines = []
        for fid, (f, vs) in sorted(knownhits.items()):
            lines.append(f"KNOWN-FINDING: property={self.prop} {fid}: {f['what']} ({len(vs)} witnesses kept)")
        replay_paths = []
        if new:
            os.makedirs(REPLAY_DIR, exist_ok=True)
            for key, vs in list(new.items())[:25]:
                v = vs[0]
                d = v.as_dict()
                d["check"] = self.prop
                d["tier"] = self.tier
                blob = json.dumps(d, sort_keys=True, indent=1)
                h = hashlib.sha1(json.dumps([key[0], key[1], key[2], key[3]]).encode()).hexdigest()[:10]
                path = os.path.join(REPLAY_DIR, f"{self.prop}-{h}.json")
                with open(path, "w") as fh:
                    fh.write(blob)
                replay_paths.append(path)
                lines.append(f"VIOLATION property={self.prop} replay={path}")
                lines.append(f"  site={v.site} kind={v.kind} features={json.dumps(jsonable(v.feat), sort_keys=True)}")
                lines.append(f"  {v.msg[:400]}")
        guard_fail = [k for k, n in self.guards.items() if n <= 0]
        wall = time.time() - self.t0
        exhaustive = self.exhaustive and not t.truncated and t.capped == 0
        level = LEVEL.get(self.prop, "model_checking")
        cov = {
            "states": max(t.states, 0),
            "transitions": t.executions,
            "traces_validated_against_impl": t.executions,
            "evaluations": t.executions,
            "distinct_nontrivial": t.nontrivial,
            "rule": self.rule,
            "samples": jsonable(t.samples[:12]) or ["<none>"],
            "exhaustive": bool(exhaustive),
            "work_units": self.units,
            "capped_paths": t.capped,
            "landmark_abstracted_choice_points": t.abstracted,
            "truncated_by_execution_cap": t.truncated,
            "counters": t.counters,
            "vacuity_guards": self.guards,
            "known_findings_hit": sorted(knownhits.keys()),
            "technique": self.technique,
        }
        cov.update(self.extra)
        ev = {
            "property_id": self.prop,
            "tier": self.tier,
            "seed": self.seed,
            "level": level,
            "coverage": cov,
            "assumptions": self.assumptions,
            "wall_s": round(wall, 2),
            "violations": len(new),
        }
        with open(os.path.join(EVIDENCE_DIR, f"{self.prop}.json"), "w") as fh:
            json.dump(ev, fh, indent=1, sort_keys=True)
        for ln in lines:
            print(ln)
        print(
            f"[{self.prop}/{self.tier}] units={self.units} executions={t.executions} states={t.states} "
            f"nontrivial={t.nontrivial} capped={t.capped} violations={len(new)} known={len(knownhits)} "
            f"wall={wall:.1f}s exhaustive={exhaustive}",
        )
        if self.harness_errors:
            print(f"HARNESS-ERROR {self.prop}: {len(self.harness_errors)} unit(s) failed inside the harness")
            for e in self.harness_errors[:3]:
                print(e)
        if new:
            return 1
        if self.harness_errors:
            return 2
        if guard_fail:
            print(f"HARNESS-ERROR {self.prop}: vacuity guard(s) at zero: {guard_fail}")
            return 2
        return 0
