"""Deep structural snapshots: programs (with per-node labels), genotypes, individuals, grammars."""
from __future__ import annotations

from typing import Any

from geneticengine.grammar.decorators import get_gengy
from mc.refsem import _field_names, term


def _ctx(c):
    if c is None:
        return None
    try:
        return (c.depth, c.nodes, c.expansions, tuple(sorted((k, repr(term(v))) for k, v in c.dependent_values.items())))
    except Exception:
        return repr(c)


def tname(t):
    return getattr(t, "__name__", repr(t))


def tree_snapshot(v: Any, with_ctx: bool = True, depth=0):
    """Structure + gengy_* labels + init values of every node (lists included)."""
    if depth > 300:
        return ("<deep>",)
    t = type(v)
    if t in (int, float, str, bool) or v is None:
        return term(v)
    if isinstance(v, list):
        body = tuple(tree_snapshot(x, with_ctx, depth + 1) for x in v)
        return ("[]", _labels(v, with_ctx), body)
    if t is tuple:
        return ("()",) + tuple(tree_snapshot(x, with_ctx, depth + 1) for x in v)
    if t.__module__ == "builtins":
        return ("<" + t.__name__ + ">",)
    names = _field_names(t)
    body = tuple(tree_snapshot(getattr(v, n, None), with_ctx, depth + 1) for n in names)
    init = getattr(v, "gengy_init_values", None)
    init_s = None
    if init is not None:
        try:
            init_s = tuple(term(x) for x in init)
        except Exception:
            init_s = "<?>"
    return (t.__name__, _labels(v, with_ctx), init_s, body)


def _labels(v, with_ctx):
    ttw = getattr(v, "gengy_types_this_way", None)
    ttw_s = None
    if ttw is not None:
        try:
            ttw_s = tuple(sorted((tname(k), tuple(sorted(repr(term(x)) for x in vs))) for k, vs in ttw.items()))
        except Exception:
            ttw_s = "<?>"
    return (
        getattr(v, "gengy_labeled", None),
        getattr(v, "gengy_nodes", None),
        getattr(v, "gengy_distance_to_term", None),
        getattr(v, "gengy_weighted_nodes", None),
        ttw_s,
        _ctx(getattr(v, "gengy_synthesis_context", None)) if with_ctx else None,
    )


def genotype_snapshot(g: Any):
    """Snapshot of any of the five genotype kinds."""
    dna = getattr(g, "dna", None)
    if dna is None:
        return ("tree", tree_snapshot(g))
    if isinstance(dna, dict):
        items = tuple(sorted(((tname(k) if not isinstance(k, str) else k), tuple(v)) for k, v in dna.items()))
        return ("dict", items)
    return ("list", tuple(dna))


def genotype_canon(g: Any):
    """Canonical state for E2 (over-fine: includes labels, so merged states have equal futures)."""
    return genotype_snapshot(g)


def individual_snapshot(ind, problems=()):
    fit = []
    for p in problems:
        if ind.has_fitness(p):
            f = ind.get_fitness(p)
            fit.append((id(p), f.maximizing_aggregate, tuple(f.fitness_components)))
        else:
            fit.append((id(p), None))
    ph = ind.phenotype
    return (
        genotype_snapshot(ind.genotype),
        None if ph is None else tree_snapshot(ph),
        tuple(sorted((k, repr(v)) for k, v in ind.metadata.items())),
        tuple(fit),
    )


def grammar_snapshot(g):
    def names(xs):
        return tuple(tname(x) for x in xs)

    gengy = []
    for c in sorted(g.all_nodes, key=tname):
        d = get_gengy(c) if c.__module__ != "builtins" else {}
        # only what the property names (production weights, abstractness): other keys may be caches
        gengy.append((tname(c), tuple(sorted((k, repr(v)) for k, v in d.items() if k in ("weight", "abstract")))))
    refinements = []
    for c in sorted(g.all_nodes, key=tname):
        if c.__module__ == "builtins":
            continue
        ann = getattr(getattr(c, "__init__", None), "__annotations__", {}) or {}
        for fn, ft in ann.items():
            for mh in getattr(ft, "__metadata__", ()):
                st = []
                for k, v in sorted(vars(mh).items()) if hasattr(mh, "__dict__") else ():
                    if callable(v):
                        continue
                    st.append((k, repr(v.tolist()) if hasattr(v, "tolist") else repr(v)))
                refinements.append((tname(c), fn, type(mh).__name__, tuple(st)))
    return {
        "refinements": tuple(refinements),
        "start": tname(g.starting_symbol),
        "alternatives": tuple((tname(k), names(v)) for k, v in g.alternatives.items()),
        "distanceToTerminal": tuple(sorted((tname(k), v) for k, v in g.distanceToTerminal.items())),
        "recursive_prods": tuple(sorted(names(g.recursive_prods))),
        "all_nodes": tuple(sorted(names(g.all_nodes))),
        "terminals": tuple(sorted(names(g.terminals))),
        "non_terminals": tuple(sorted(names(g.non_terminals))),
        "abstract_dist_to_t": tuple(
            sorted((tname(k), tuple(sorted((tname(k2), v2) for k2, v2 in v.items()))) for k, v in g.abstract_dist_to_t.items()),
        ),
        "weights": tuple(sorted((tname(k), v) for k, v in g.get_weights().items())),
        "gengy": tuple(gengy),
        "considered": names(g.considered_subtypes),
        "expansion_depthing": g.expansion_depthing,
    }


def diff_snap(a, b, path="") -> str:
    """First difference between two snapshots (for messages)."""
    if type(a) is not type(b):
        return f"{path}: {a!r:.80} != {b!r:.80}"
    if isinstance(a, dict):
        for k in a:
            if k not in b:
                return f"{path}.{k}: missing"
            if a[k] != b[k]:
                return diff_snap(a[k], b[k], f"{path}.{k}")
        for k in b:
            if k not in a:
                return f"{path}.{k}: added"
        return ""
    if isinstance(a, tuple):
        if len(a) != len(b):
            return f"{path}: length {len(a)} != {len(b)}: {a!r:.120} vs {b!r:.120}"
        for i, (x, y) in enumerate(zip(a, b)):
            if x != y:
                return diff_snap(x, y, f"{path}[{i}]")
        return ""
    if a != b:
        return f"{path}: {a!r:.80} != {b!r:.80}"
    return ""
