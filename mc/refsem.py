"""Reference semantics (the oracles' definitions), written against grammar *specs*
(see mc.grammars) and never through the library's own analysis code."""
from __future__ import annotations

import itertools
import math
from typing import Any, Iterable, Optional

from mc.grammars import children_of, dep_predicate_handler, spec_parent, spec_types

INF = 10**6


class TooLarge(Exception):
    pass


# ---------------------------------------------------------------------------------------
# canonical terms


def term(v: Any, depth_guard: int = 0):
    """Canonical structural form of a program value."""
    if depth_guard > 400:
        return ("<too-deep>",)
    if v is None:
        return ("None",)
    t = type(v)
    if t is bool:
        return ("bool", v)
    if t is int:
        return ("int", v)
    if t is float:
        if v != v:
            return ("float", "nan")
        return ("float", v)
    if t is str:
        return ("str", v)
    if isinstance(v, list):
        return ("[]",) + tuple(term(x, depth_guard + 1) for x in v)
    if t is tuple:
        return ("()",) + tuple(term(x, depth_guard + 1) for x in v)
    if t.__module__ == "builtins":
        return ("<" + t.__name__ + ">",)
    # class instance: fields by the class's own dataclass fields if any, else by __init__ annotations
    names = _field_names(t)
    return (t.__name__,) + tuple(term(getattr(v, n, ("<missing>",)), depth_guard + 1) for n in names)


def _field_names(cls) -> list[str]:
    df = getattr(cls, "__dataclass_fields__", None)
    if df is not None:
        return list(df.keys())
    init = getattr(cls, "__init__", None)
    ann = getattr(init, "__annotations__", {}) or {}
    return [k for k in ann if k != "return"]


def show(t) -> str:
    if not isinstance(t, tuple):
        return repr(t)
    h = t[0]
    if h in ("bool", "int", "float", "str"):
        return repr(t[1])
    if h == "[]":
        return "[" + ", ".join(show(x) for x in t[1:]) + "]"
    if h == "()":
        return "(" + ", ".join(show(x) for x in t[1:]) + ")"
    return h + "(" + ", ".join(show(x) for x in t[1:]) + ")"


def term_depth(t) -> int:
    """Longest chain of nested grammar nodes; lists / tuples transparent, base values 0."""
    h = t[0]
    if h in ("bool", "int", "float", "str", "None") or h.startswith("<"):
        return 0
    sub = [term_depth(x) for x in t[1:]]
    m = max(sub) if sub else 0
    if h in ("[]", "()"):
        return m
    return 1 + m


def value_depth(v) -> int:
    return term_depth(term(v))


# ---------------------------------------------------------------------------------------
# well-typedness and refinements


def type_form(t) -> str:
    """Outline of a spec TYPE, used as a violation feature: e.g. 'ann[LSB](list(ref))'."""
    if isinstance(t, str):
        return t
    k = t[0]
    if k == "ref":
        return "ref"
    if k == "ann":
        return f"ann[{t[2][0]}]({type_form(t[1])})"
    if k == "list":
        return f"list({type_form(t[1])})"
    return k + "(" + ",".join(type_form(x) for x in t[1:]) + ")"


class SpecView:
    def __init__(self, spec):
        self.spec = spec
        self.types = spec_types(spec)
        self.parent = spec_parent(spec)
        self.abstract = {a[0] for a in spec["abstract"]}
        self._desc: dict[str, list[str]] = {}

    def is_abstract(self, n):
        return n in self.abstract

    def productions(self, n) -> list[str]:
        return children_of(self.spec, n)

    def concrete_below(self, n) -> list[str]:
        """Concrete classes derivable from symbol n through (nested) productions, in order."""
        if n in self._desc:
            return self._desc[n]
        if not self.is_abstract(n):
            out = [n]
        else:
            out = []
            for c in self.productions(n):
                for x in self.concrete_below(c):
                    if x not in out:
                        out.append(x)
        self._desc[n] = out
        return out


def mh_predicate(mh, v, siblings: Optional[dict] = None) -> Optional[str]:
    """None if v satisfies the documented predicate of the refinement, else a reason."""
    k = mh[0]
    try:
        if k == "IntRange":
            ok = type(v) is int and mh[1] <= v <= mh[2]
        elif k in ("IntList", "FloatList", "VarRange"):
            ok = any(v == e and type(v) is type(e) for e in mh[1])
        elif k == "FloatRange":
            ok = type(v) is float and mh[1] <= v <= mh[2]
        elif k in ("LSB", "LSBW"):
            ok = isinstance(v, list) and mh[1] <= len(v) <= mh[2]
        elif k == "SSB":
            ok = type(v) is str and mh[1] <= len(v) <= mh[2] and all(c in mh[3] for c in v)
        elif k == "WSH":
            ok = type(v) is str and len(v) == len(mh[1]) and all(c in mh[2] for c in v)
            if ok:
                # a letter of probability zero in its row must never appear
                for row, c in zip(mh[1], v):
                    if row[list(mh[2]).index(c)] == 0:
                        return f"letter {c!r} has probability 0 at its position"
        elif k == "IntervalRange":
            ok = (
                type(v) is tuple
                and len(v) == 2
                and all(type(x) is int for x in v)
                and 0 <= v[0]
                and mh[1] <= v[1] - v[0] <= mh[2]
                and v[1] <= mh[3]
            )
        elif k == "Pass":
            ok = True
        elif k == "Dep":
            names = mh[1].split(",")
            if siblings is None or any(n not in siblings for n in names):
                return f"dependent refinement on {names}: sibling values unavailable"
            inner = dep_predicate_handler(mh[2], [siblings[n] for n in names])
            return mh_predicate(inner, v, siblings)
        else:
            return f"unknown refinement {k}"
    except Exception as e:  # comparison blew up on a foreign value
        return f"predicate raised {type(e).__name__}: {e}"
    return None if ok else f"{v!r} violates {mh}"


def check_value(view: SpecView, v: Any, t, grammar=None, path="$", siblings=None, errs=None, what=("type", "ref")):
    """Structural recursion on the declared (spec) type.  Appends (kind, path, message)."""
    if errs is None:
        errs = []
    if len(errs) > 20:
        return errs

    def bad(kind, msg):
        errs.append((kind, path, msg, type_form(t), v))

    if isinstance(t, str):
        pyt = {"int": int, "bool": bool, "float": float, "str": str}[t]
        if type(v) is not pyt:
            if "type" in what:
                bad("base-type", f"expected exactly {t}, got {type(v).__name__} {v!r:.60}")
        return errs
    k = t[0]
    if k == "ref":
        n = t[1]
        cn = type(v).__name__
        allowed = view.concrete_below(n)
        if cn not in allowed or type(v).__module__ == "builtins":
            if "type" in what:
                bad("production", f"expected a production of {n} ({allowed}), got {type(v).__name__} {v!r:.60}")
            return errs
        if grammar is not None and "type" in what:
            if type(v) not in grammar.all_nodes:
                bad("unregistered", f"{cn} is not registered in the grammar")
        fields = view.types[cn]
        sib: dict = {}
        for fn, ft in fields:
            if not hasattr(v, fn):
                if "type" in what:
                    bad("missing-field", f"{cn}.{fn} missing")
                continue
            fv = getattr(v, fn)
            check_value(view, fv, ft, grammar, f"{path}.{fn}", sib, errs, what)
            sib[fn] = fv
        return errs
    if k == "list":
        if not isinstance(v, list):
            if "type" in what:
                bad("list", f"expected a list, got {type(v).__name__} {v!r:.60}")
            return errs
        for i, x in enumerate(v):
            check_value(view, x, t[1], grammar, f"{path}[{i}]", siblings, errs, what)  # elements see the owner's earlier fields
        return errs
    if k == "tuple":
        if type(v) is not tuple:
            if "type" in what:
                bad("tuple", f"expected a real tuple, got {type(v).__name__} {v!r:.60}")
            return errs
        if len(v) != len(t) - 1:
            if "type" in what:
                bad("tuple", f"expected {len(t) - 1} components, got {len(v)}")
            return errs
        for i, (x, tt) in enumerate(zip(v, t[1:])):
            check_value(view, x, tt, grammar, f"{path}({i})", None, errs, what)
        return errs
    if k == "union":
        best = None
        for alt in t[1:]:
            e2: list = []
            check_value(view, v, alt, grammar, path, siblings, e2, what)
            if not e2:
                return errs
            if best is None or len(e2) < len(best):
                best = e2
        if "type" in what or any(e[0] == "refinement" for e in best or []):
            errs.append(("union", path, f"no alternative of the union accepts {v!r:.60}: {best[:1]}", type_form(t)))
        return errs
    if k == "ann":
        n0 = len(errs)
        inner_t = t[1]
        mh = t[2]
        eff = mh
        if mh[0] == "Dep" and siblings is not None:
            try:
                names = mh[1].split(",")
                eff = dep_predicate_handler(mh[2], [siblings[n] for n in names])
            except Exception:
                eff = mh
        if eff[0] == "IntervalRange":
            # the base type tuple[int,int] is checked by the predicate itself as well
            pass
        check_value(view, v, inner_t, grammar, path, siblings, errs, what)
        if len(errs) == n0 and "ref" in what:
            r = mh_predicate(mh, v, siblings)
            if r is not None:
                errs.append(("refinement", path, r, type_form(t), v))
        return errs
    raise ValueError(t)


# ---------------------------------------------------------------------------------------
# bounded language


def _mh_values(mh, base_t, enum_inner, budget, siblings):
    k = mh[0]
    if k == "IntRange":
        return [(("int", x), 0) for x in range(mh[1], mh[2] + 1)]
    if k == "IntList":
        return [(("int", x), 0) for x in dict.fromkeys(mh[1])]
    if k == "FloatList":
        return [(("float", x), 0) for x in dict.fromkeys(mh[1])]
    if k == "VarRange":
        return [(("str", x), 0) for x in dict.fromkeys(mh[1])]
    if k in ("LSB", "LSBW"):
        elem_t = base_t[1]
        elems = enum_inner(elem_t, budget)
        out = []
        for n in range(mh[1], mh[2] + 1):
            for combo in itertools.product(elems, repeat=n):
                out.append((("[]",) + tuple(c[0] for c in combo), max([c[1] for c in combo], default=0)))
                if len(out) > 200000:
                    raise TooLarge()
        return out
    if k == "SSB":
        out = []
        alpha = list(dict.fromkeys(mh[3]))
        for n in range(mh[1], mh[2] + 1):
            for combo in itertools.product(alpha, repeat=n):
                out.append((("str", "".join(combo)), 0))
        return out
    if k == "WSH":
        rows = mh[1]
        alpha = mh[2]
        per_row = [[a for a, p in zip(alpha, row) if p > 0] for row in rows]
        return [(("str", "".join(c)), 0) for c in itertools.product(*per_row)]
    if k == "IntervalRange":
        out = []
        for ln in range(mh[1], mh[2] + 1):
            for s in range(0, mh[3] - ln + 1):
                out.append((("()", ("int", s), ("int", s + ln)), 0))
        return out
    if k == "Pass":
        return enum_inner(base_t, budget)
    if k == "Dep":
        names = mh[1].split(",")
        vals = [siblings[n][1] if siblings[n][0] in ("int", "str", "bool", "float") else None for n in names]
        inner = dep_predicate_handler(mh[2], vals)
        return _mh_values(inner, base_t, enum_inner, budget, siblings)
    raise TooLarge()  # FloatRange etc.: infinitely many values


def language(spec, max_depth: int, cap: int = 50000, root=None):
    """All (term, depth) derivable from the start symbol with depth <= max_depth.

    Raises TooLarge when the grammar is not finite-choice or the cap is exceeded."""
    view = SpecView(spec)
    memo: dict = {}

    def enum(t, budget, siblings=None) -> list:
        if isinstance(t, str):
            if t == "bool":
                return [(("bool", False), 0), (("bool", True), 0)]
            raise TooLarge()
        k = t[0]
        if k == "ref":
            key = (t[1], budget)
            if key in memo:
                return memo[key]
            out: list = []
            seen = set()
            for cn in view.concrete_below(t[1]):
                if budget < 1:
                    continue
                fields = view.types[cn]
                partial: list = [((), 0, {})]
                for fn, ft in fields:
                    nxt = []
                    for vals, d, sib in partial:
                        for fv, fd in enum(ft, budget - 1, sib):
                            s2 = dict(sib)
                            s2[fn] = fv
                            nxt.append((vals + (fv,), max(d, fd), s2))
                            if len(nxt) > cap * 4:
                                raise TooLarge()
                    partial = nxt
                for vals, d, _ in partial:
                    tm = (cn,) + vals
                    if tm not in seen:
                        seen.add(tm)
                        out.append((tm, 1 + d))
            if len(out) > cap:
                raise TooLarge()
            memo[key] = out
            return out
        if k == "list":
            raise TooLarge()  # un-annotated list: length 0..10, not enumerated here
        if k == "tuple":
            parts = [enum(x, budget) for x in t[1:]]
            out = []
            for combo in itertools.product(*parts):
                out.append((("()",) + tuple(c[0] for c in combo), max([c[1] for c in combo], default=0)))
            return out
        if k == "union":
            out = []
            seen = set()
            for alt in t[1:]:
                for tm, d in enum(alt, budget, siblings):
                    if tm not in seen:
                        seen.add(tm)
                        out.append((tm, d))
            return out
        if k == "ann":
            return _mh_values(t[2], t[1], lambda tt, b: enum(tt, b, siblings), budget, siblings)
        raise ValueError(t)

    start = root or ["ref", spec["start"]]
    return enum(start, max_depth)


def full_members(lang: Iterable, d: int, leafless_ok=True):
    """Members of the language all of whose root-to-leaf node chains have length exactly d."""

    def chains(t):
        h = t[0]
        if h in ("bool", "int", "float", "str", "None"):
            return None  # not a node
        if h in ("[]", "()"):
            out = []
            for x in t[1:]:
                c = chains(x)
                if c:
                    out.extend(c)
            return out or None
        sub = []
        for x in t[1:]:
            c = chains(x)
            if c:
                sub.extend(c)
        if not sub:
            return [1]
        return [1 + x for x in sub]

    return [tm for tm, _ in lang if all(c == d for c in (chains(tm) or [0]))]


# ---------------------------------------------------------------------------------------
# grammar analysis reference (C05)


def may_be_empty_list(t) -> bool:
    """A list-typed field that admits the empty list (un-annotated lists have length 0..10)."""
    if isinstance(t, list) and t[0] == "list":
        return True
    if isinstance(t, list) and t[0] == "ann" and isinstance(t[1], list) and t[1][0] == "list":
        mh = t[2]
        if mh[0] in ("LSB", "LSBW"):
            return mh[1] == 0
        if mh[0] == "Dep":
            return True
    return False


def ref_min_depth(spec, expansion_depthing=False, exact=False) -> dict[str, int]:
    """Least fixed point of the AND/OR depth equations, per class name:
    abstract = min over productions; concrete = 1 + max over fields (0 if no fields);
    union = min; tuple = max; annotated = inner; list = its element type -- the library's
    convention -- or, with exact=True, 0 when the list may be empty (the depth of the
    genuinely shallowest derivable program)."""
    view = SpecView(spec)
    names = list(view.types.keys())
    dist = {n: INF for n in names}
    e = 1 if expansion_depthing else 0

    def td(t) -> int:
        if isinstance(t, str):
            return e
        k = t[0]
        if k == "ref":
            return dist[t[1]]
        if k == "list":
            return e if exact else e + td(t[1])
        if k == "ann":
            inner = t[1]
            if isinstance(inner, list) and inner[0] == "list":
                if exact and may_be_empty_list(t):
                    return e
                return e + td(inner[1])
            return td(inner)
        if k == "union":
            return e + min(td(x) for x in t[1:])
        if k == "tuple":
            return e + max(td(x) for x in t[1:])
        raise ValueError(t)

    changed = True
    while changed:
        changed = False
        for n in names:
            if view.is_abstract(n):
                ps = view.productions(n)
                v = min([e + dist[p] for p in ps], default=INF)
            else:
                fields = view.types[n]
                v = 1 + max([td(ft) for _, ft in fields], default=0) if fields else 1
            v = min(v, INF)
            if v < dist[n]:
                dist[n] = v
                changed = True
    return dist


def ref_reach_graph(spec) -> dict[str, set[str]]:
    """'can directly contain' graph over class names (abstract -> productions, concrete -> field symbols)."""
    view = SpecView(spec)
    g: dict[str, set[str]] = {n: set() for n in view.types}

    def syms(t):
        if isinstance(t, str):
            return
        k = t[0]
        if k == "ref":
            yield t[1]
        elif k in ("list", "ann"):
            yield from syms(t[1])
        else:
            for x in t[1:]:
                yield from syms(x)

    for n in view.types:
        if view.is_abstract(n):
            g[n].update(view.productions(n))
        else:
            for _, ft in view.types[n]:
                g[n].update(syms(ft))
    return g


def ref_recursive(spec) -> set[str]:
    g = ref_reach_graph(spec)
    out = set()
    for n in g:
        seen = set()
        stack = list(g[n])
        while stack:
            x = stack.pop()
            if x in seen:
                continue
            seen.add(x)
            stack.extend(g.get(x, ()))
        if n in seen:
            out.add(n)
    return out


def ref_reachable(spec, start=None) -> set[str]:
    g = ref_reach_graph(spec)
    start = start or spec["start"]
    seen = {start}
    stack = [start]
    while stack:
        x = stack.pop()
        for y in g.get(x, ()):
            if y not in seen:
                seen.add(y)
                stack.append(y)
    return seen


# ---------------------------------------------------------------------------------------
# node labels reference (C11)


def ref_labels(v, grammar, expansion_depthing: bool):
    """Independent fold: returns (nodes, distance, weighted, multiset of (type, id) beneath incl. self).

    Convention pinned by tests/representations/tree_based/relabel_test.py: a field-less node
    and builtin values are terminals with nodes = distance = weighted = int(expansion_depthing);
    a node with fields has nodes = 1 + sum(children), distance = max(1, max(child distance + 1)),
    weighted = distance + sum(children weighted); a list is transparent: it contributes its
    elements to its owner."""
    e = int(expansion_depthing)

    def is_node(x):
        return type(x).__module__ != "builtins" and not isinstance(x, (list, tuple))

    def kids(x):
        out = []
        for n in _field_names(type(x)):
            out.append(getattr(x, n))
        return out

    def flat(vals):
        for c in vals:
            if isinstance(c, (list, tuple)):
                yield from flat(c)
            else:
                yield c

    def fold(x):
        if not is_node(x):
            return (e, e, e, [(type(x), x)])
        ks = kids(x)
        if not ks:
            return (e, e, e, [(type(x), x)])
        nodes, dist, weighted = 1, 1, 0
        beneath = [(type(x), x)]
        for c in flat(ks):
            n, d, w, b = fold(c)
            nodes += n
            dist = max(dist, d + 1)
            weighted += w
            beneath.extend(b)
        weighted += dist
        return (nodes, dist, weighted, beneath)

    return fold(v)


def ref_labels_expansion(v, view: "SpecView"):
    """Reference fold for grammars extracted with expansion_depthing=True (every grammar expansion counts):
    terminals (builtin values, field-less nodes) have nodes = distance = weighted = 1; a node with fields has
    nodes = 1 + sum(adj(c) + nodes(c)), distance = max(1, max(distance(c) + adj(c) + [c is not a container])),
    weighted = distance + sum(weighted(c)), where adj(c) is the number of abstract layers between the declared
    type of the field and the class of the value (1 for a list / tuple value).  Containers are transparent; their
    elements are counted as the library documents them ('you can only read the distance of actual objects':
    no hidden expansions are added for elements).  Returns (nodes, distance, weighted)."""

    def layers(decl_t, val) -> int:
        if isinstance(val, (list, tuple)):
            return 1
        t = decl_t
        while isinstance(t, list) and t[0] == "ann":
            t = t[1]
        if isinstance(t, list) and t[0] == "union":
            # which alternative was expanded is not recorded in the value: take the fewest hidden expansions
            cands = [layers(alt, val) for alt in t[1:] if not check_value(view, val, alt, None, what=("type",))]
            return min(cands) if cands else 0
        if isinstance(t, list) and t[0] == "ref" and view.is_abstract(t[1]):
            n = 0
            c = type(val).__name__
            while c is not None and c != t[1]:
                c = view.parent.get(c)
                n += 1
            return n if c == t[1] else 0
        return 0

    def fold(x):
        if isinstance(x, (list, tuple)):
            nodes, dist, weighted = 0, 0, 0
            for c in x:
                n, d, w = fold(c)
                adj = 1 if isinstance(c, (list, tuple)) else 0  # a nested container is one more expansion
                nodes += adj + n
                dist = max(dist, d + adj + (0 if isinstance(c, (list, tuple)) else 1))
                weighted += w
            return nodes, dist, weighted
        if type(x).__module__ == "builtins":
            return 1, 1, 1
        fields = view.types.get(type(x).__name__) or []
        if not fields:
            return 1, 1, 1
        nodes, dist, weighted = 1, 1, 0
        for fn, ft in fields:
            c = getattr(x, fn)
            n, d, w = fold(c)
            adj = layers(ft, c)
            nodes += adj + n
            dist = max(dist, d + adj + (0 if isinstance(c, (list, tuple)) else 1))
            weighted += w
        weighted += dist
        return nodes, dist, weighted

    return fold(v)
