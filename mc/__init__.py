"""Model-checking machinery for alcides/GeneticEngine (see /verif/DESIGN.md)."""
import os
import sys

os.environ.setdefault("PYTHONDONTWRITEBYTECODE", "1")
sys.dont_write_bytecode = True


def assert_repo_under_test():
    """Every check must exercise the working tree in /repo, never an installed copy."""
    import geneticengine

    root = os.path.realpath(os.environ.get("VERIF_REPO") or "/repo")
    f = os.path.realpath(geneticengine.__file__)
    if not f.startswith(root + "/"):
        raise SystemExit(f"harness error: geneticengine imported from {f}, expected {root}")
