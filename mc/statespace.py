"""E2 -- explicit-state search over operation sequences with the real transition functions.

State = canonical form of a genotype.  Initial states = every outcome of create_genotype
under E1; transitions = mutate(s) and crossover(s, t) expanded over all random outcomes by
E1.  Breadth-first to operation depth K (or a fixed point).  The first live object reaching
a canonical state is kept as its representative, with a structural snapshot taken when it
was first seen; `verify_heap()` re-checks every snapshot (nothing that was ever returned
changes later)."""
from __future__ import annotations

from dataclasses import dataclass, field
from typing import Any, Callable, Optional

from mc.explorer import ExploreStats, explore
from mc.snapshot import genotype_canon, genotype_snapshot


@dataclass
class Transition:
    op: str  # 'create' | 'mutate' | 'crossover'
    parents: tuple  # indices of parent states
    parent_objs: tuple
    result: Any  # genotype, or tuple of genotypes for crossover
    exc: Optional[BaseException]
    choices: tuple
    depth: int
    source: Any = None


@dataclass
class E2Stats:
    states: int = 0
    transitions: int = 0
    max_depth: int = 0
    fixed_point: bool = False
    state_cap_hit: bool = False
    explore: ExploreStats = field(default_factory=ExploreStats)


class StateSpace:
    def __init__(
        self,
        make_rep: Callable[[Any], Any],
        *,
        canon: Callable[[Any], Any] = genotype_canon,
        max_states: int = 60,
        max_execs_per_op: int = 300,
        max_partners: int = 6,
        horizon: int = 2000,
        max_dev: Optional[int] = None,
        source_kwargs: Optional[dict] = None,
        ops=("mutate", "crossover"),
        snapshot: Callable[[Any], Any] = genotype_snapshot,
        post: Optional[Callable[[Any, Any], None]] = None,
        roots: Optional[Callable[[], list]] = None,
    ):
        self.roots = roots  # further initial genotypes (e.g. found by another search); they come first, so that the
        # state cap cannot crowd them out
        self.make_rep = make_rep
        self.canon = canon
        self.max_states = max_states
        self.max_execs_per_op = max_execs_per_op
        self.max_partners = max_partners
        self.horizon = horizon
        self.max_dev = max_dev
        self.source_kwargs = source_kwargs or {}
        self.ops = ops
        self.snapshot = snapshot
        # post(rep, genotype): run inside the explored call on every freshly produced genotype (dSGE: map it
        # once so that its on-demand gene lists exist; the extension draws are explored like any other)
        self.post = post
        self.states: list[Any] = []  # representative live objects
        self.snaps: list[Any] = []
        self.how: list[tuple] = []  # (op, parent indices, choices) that first reached the state
        self.index: dict = {}
        self.stats = E2Stats()

    # ------------------------------------------------------------------
    def _add(self, obj, how, depth) -> Optional[int]:
        try:
            k = self.canon(obj)
        except Exception:
            return None
        if k in self.index:
            return None
        if len(self.states) >= self.max_states:
            self.stats.state_cap_hit = True
            return None
        self.index[k] = len(self.states)
        self.states.append(obj)
        self.snaps.append(self.snapshot(obj))
        self.how.append(how)
        self.stats.states = len(self.states)
        self.stats.max_depth = max(self.stats.max_depth, depth)
        return len(self.states) - 1

    def _explore(self, run):
        st = ExploreStats()
        for ex in explore(
            run,
            max_dev=self.max_dev,
            max_execs=self.max_execs_per_op,
            horizon=self.horizon,
            stats=st,
            source_kwargs=self.source_kwargs,
        ):
            yield ex
        self.stats.explore.merge(st)

    def history(self, idx: int) -> list:
        """Operation list that reaches state idx from scratch (for replay files)."""
        op, parents, choices = self.how[idx]
        return [
            {"op": op, "parents": [self.history(p) for p in parents] if op != "create" else [], "choices": list(choices)},
        ]

    def verify_heap(self) -> list[tuple[int, Any, Any]]:
        """Indices of states whose live object no longer matches its first snapshot."""
        bad = []
        for i, (o, s) in enumerate(zip(self.states, self.snaps)):
            try:
                now = self.snapshot(o)
            except Exception as e:  # noqa
                now = ("<snapshot failed>", repr(e))
            if now != s:
                bad.append((i, s, now))
        return bad

    # ------------------------------------------------------------------
    def run(self, K: int, on_transition: Callable[[Transition], None]):
        def fin(rep, out):
            if self.post is not None:
                for o in (out if isinstance(out, tuple) else (out,)):
                    self.post(rep, o)
            return out

        def create(src):
            rep = self.make_rep(src)
            return fin(rep, rep.create_genotype(src))

        frontier = []
        if self.roots is not None:
            for g0 in self.roots():
                i = self._add(g0, ("root", (), ()), 0)
                if i is not None:
                    frontier.append(i)
        for ex in self._explore(create):
            if ex.capped:
                continue
            self.stats.transitions += 1
            tr = Transition("create", (), (), ex.result, ex.exc, ex.choices, 0, ex.source)
            on_transition(tr)
            if ex.exc is None:
                i = self._add(ex.result, ("create", (), ex.choices), 0)
                if i is not None:
                    frontier.append(i)
        for depth in range(1, K + 1):
            new = []
            for si in frontier:
                s = self.states[si]
                if "mutate" in self.ops:

                    def mut(src, s=s):
                        rep = self.make_rep(src)
                        return fin(rep, rep.mutate(src, s))

                    for ex in self._explore(mut):
                        if ex.capped:
                            continue
                        self.stats.transitions += 1
                        on_transition(Transition("mutate", (si,), (s,), ex.result, ex.exc, ex.choices, depth, ex.source))
                        if ex.exc is None:
                            i = self._add(ex.result, ("mutate", (si,), ex.choices), depth)
                            if i is not None:
                                new.append(i)
                if "crossover" in self.ops:
                    partners = list(range(min(len(self.states), self.max_partners)))
                    if si not in partners:
                        partners.append(si)
                    for ti in partners:
                        t = self.states[ti]
                        for a, b, ai, bi in ((s, t, si, ti), (t, s, ti, si)):
                            if ai == bi and a is s and (a, b) != (s, t):
                                continue

                            def xo(src, a=a, b=b):
                                rep = self.make_rep(src)
                                return fin(rep, rep.crossover(src, a, b))

                            for ex in self._explore(xo):
                                if ex.capped:
                                    continue
                                self.stats.transitions += 1
                                on_transition(
                                    Transition("crossover", (ai, bi), (a, b), ex.result, ex.exc, ex.choices, depth, ex.source),
                                )
                                if ex.exc is None and isinstance(ex.result, tuple):
                                    for c in ex.result:
                                        i = self._add(c, ("crossover", (ai, bi), ex.choices), depth)
                                        if i is not None:
                                            new.append(i)
            if not new:
                self.stats.fixed_point = not self.stats.state_cap_hit
                break
            frontier = new
        return self.stats
