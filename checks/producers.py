"""Program producers shared by C01/C02/C03/C09/C10/C11: every way the library makes a program.

A *unit* is a JSON dict; `produce(unit)` yields Event objects, one per execution of a real
library call (create / map / mutate / crossover), exhaustively over the unit's bounded space.
"""
from __future__ import annotations

import hashlib
import json
import itertools
import sys
from dataclasses import dataclass, field
from typing import Any, Iterator, Optional

from mc import grammars as G
from mc import refsem as R
from mc.explorer import ExploreStats, HarnessError, HorizonExceeded, explore, gene_domain, MAXSIZE
from mc.statespace import StateSpace
from checks.common import make_decider, make_rep, is_library_error

GENES = [0, 1, 2, 3, MAXSIZE]
GENES_DSGE = [0, 1, 2, 3, 1024, 1025, MAXSIZE]  # creation draws 0..1024, mutation writes 0..maxsize


@dataclass
class Ctx:
    unit: dict
    spec: dict
    bundle: Any
    g: Any
    view: Any
    stats: ExploreStats = field(default_factory=ExploreStats)
    e2: Any = None
    extract_exc: Optional[BaseException] = None


@dataclass
class Event:
    op: str  # create | map | mutate | crossover | init
    rep: str
    result: Any  # program (phenotype) or None
    exc: Optional[BaseException]
    choices: tuple
    genotype: Any = None
    parents: tuple = ()
    extra: dict = field(default_factory=dict)
    source: Any = None
    depth_limit: Optional[int] = None


_stack_patched = False


def patch_stack_horizon(limit: int = 400):
    """The stack mapping loops over a cyclic genome with no bound of its own: give it an explicit
    horizon (HorizonExceeded is a BaseException, the mapping's `except IndexError` cannot eat it)."""
    global _stack_patched
    if _stack_patched:
        return
    import geneticengine.representations.stackgggp as S
    from mc.explorer import HorizonExceeded

    base = S.ListWrapper

    class BoundedListWrapper(base):  # type: ignore
        def randint(self, min, max):  # noqa: A002
            n = self.__dict__.get("_verif_draws", 0) + 1
            self.__dict__["_verif_draws"] = n
            if n > limit:
                raise HorizonExceeded("stack mapping horizon")
            return base.randint(self, min, max)

    S.ListWrapper = BoundedListWrapper
    _stack_patched = True


def open_ctx(unit) -> Ctx:
    patch_stack_horizon()
    spec = unit["spec"]
    if unit.get("redeclare"):
        # the grammar is declared, extracted and used once (one creation with default answers), dropped, and then
        # declared again under the same module and class names: nothing remembered about the first declaration
        # (per-name / per-module caches) may leak into the second
        from mc.explorer import ExhaustiveSource as _ES0

        modname = "verif_redeclared_" + hashlib.sha1(json.dumps(spec, sort_keys=True, default=str).encode()).hexdigest()[:10]
        b0 = G.build(spec, modname=modname)
        try:
            g0 = b0.extract(bool(unit.get("xd", False)))
            make_rep("tree", g0, _ES0(()), g0.get_min_tree_depth() + 1).create_genotype(_ES0(()))
        except Exception:  # noqa
            pass
        b0.cleanup()
        del b0
        b = G.build(spec, modname=modname)
    else:
        b = G.build_named(spec) if spec.get("named") else G.build(spec)
    try:
        g = b.extract(bool(unit.get("xd", False)))
        exc = None
        if unit.get("reannotate"):
            # the documented way of altering a refinement / field type before (re-)extracting the grammar:
            #   X.__init__.__annotations__[field] = NewType ; extract_grammar(...) again.
            # The classes are first *used* (one creation with default answers), then re-annotated.
            cls_name, field, new_t = unit["reannotate"]
            from mc.explorer import ExhaustiveSource as _ES

            try:
                make_rep("tree", g, _ES(()), g.get_min_tree_depth() + 1).create_genotype(_ES(()))
            except Exception:  # noqa
                pass
            cls = b.classes[cls_name]
            spec = G.respec_field(spec, cls_name, field, new_t)
            new_py = G.build_type(new_t, b.classes)
            cls.__init__.__annotations__[field] = new_py
            cls.__annotations__[field] = new_py
            g = b.extract(bool(unit.get("xd", False)))
    except Exception as e:  # noqa
        g, exc = None, e
    return Ctx(unit, spec, b, g, R.SpecView(spec), extract_exc=exc)


def unit_depth(ctx: Ctx) -> int:
    u = ctx.unit
    if "depth" in u:
        return u["depth"]
    return ctx.g.get_min_tree_depth() + u.get("depth_off", 0)


def produce(ctx: Ctx) -> Iterator[Event]:
    kind = ctx.unit["kind"]
    if ctx.g is None:
        return
    if kind == "tree-create":
        yield from _tree_create(ctx)
    elif kind == "map":
        yield from _map(ctx)
    elif kind == "e2":
        yield from _e2(ctx)
    else:
        raise ValueError(kind)


def _tree_create(ctx: Ctx) -> Iterator[Event]:
    u = ctx.unit
    d = unit_depth(ctx)
    dec = u.get("decider", "maxdepth")

    def run(src):
        rep = make_rep("tree", ctx.g, src, d, decider=dec)
        return rep.create_genotype(src)

    for ex in explore(run, max_execs=u.get("max_execs", 3000), horizon=u.get("horizon", 300), stats=ctx.stats):
        if ex.capped:
            continue
        yield Event("create", "tree", ex.result, ex.exc, ex.choices, genotype=ex.result, source=ex.source,
                    depth_limit=None if dec == "pt" else d)


def gene_lists(L: int, alphabet=GENES):
    return itertools.product(alphabet, repeat=L)


def stack_alphabet(g, cap: int = 8) -> list[int]:
    """Genes that make the stack mapping's weighted type choice hit each of its stack types:
    choice_weighted reduces a gene modulo (number of types * 1e5 + 1)."""
    try:
        mentioned = len(g.get_all_mentioned_symbols())
    except RecursionError:  # Grammar.collect_types does not terminate on a concrete class that reaches itself through a Union
        mentioned = len(g.all_nodes) + 2
    n = min(cap, max(2, mentioned))
    return [i * 100000 + i for i in range(n)]


class _OutOfPrefix(BaseException):
    """The scripted draw prefix of a stack-machine run is used up (BaseException: the mapping's own
    `except IndexError` / the library's `except Exception` must not swallow it)."""

    def __init__(self, lo, hi):
        self.lo, self.hi = lo, hi


def stack_guided_genomes(g, max_states: int = 300, max_len: int = 14, failures_limit: int = 100, want: int = 60):
    """Explicit-state search over the stack machine of the stack-based representation: breadth-first over draw
    prefixes of the real `create_tree_using_stacks`, states = contents of the type stacks (read from the frame in
    which the run stopped) plus whether a failure has happened; every prefix after which the start symbol's stack
    is filled is turned into a genome for the real ListWrapper (which reads dna[1], dna[2], .., dna[0]) and is
    kept only if the real representation maps it to the same program (the construction validates itself).
    Returns a list of (genome, program term)."""
    import geneticengine.representations.stackgggp as S
    from geneticengine.random.sources import RandomSource

    class Prefix(RandomSource):
        def __init__(self, draws):
            self.draws, self.i, self.ranges = list(draws), 0, []

        def randint(self, lo, hi):  # noqa: A002
            if self.i >= len(self.draws):
                raise _OutOfPrefix(lo, hi)
            v = self.draws[self.i]
            self.i += 1
            self.ranges.append((lo, hi))
            return lo + (v % (hi - lo + 1))

        def random_float(self, lo, hi):
            return float(lo)

    # the draw that picks the next stack type is a weighted choice: its representative answers are the first and the last
    # value of every option's interval (computed from the grammar's own weights; multiples of 1e5 if that fails)
    type_choice_values: dict = {}
    try:
        acc, prev = 0.0, 0
        ws = g.get_weights()
        vals = []
        for t in S.ordered_stack_types(g):
            acc += ws.get(t, 1)
            cur = int(acc * 100000)
            if cur > prev:
                vals += [prev, cur - 1]
            prev = cur
        type_choice_values[prev] = sorted(set(vals))
    except Exception:  # noqa
        pass

    def domain(lo, hi):
        n = hi - lo + 1
        if lo == 0 and n in type_choice_values:
            return type_choice_values[n]
        if n % 100000 == 0 and n >= 100000:  # a weighted choice between n / 1e5 equally weighted options
            return [i * 100000 for i in range(n // 100000)]
        if n <= 12:
            return list(range(n))
        if lo < 0 < hi:  # a pushed base value: the small values the refinement alphabets of the families accept
            return [-lo + x for x in (0, 1, 2, 3) if lo + (-lo + x) <= hi]
        return [0, 1, n - 1]

    def canon(stacks, failures):
        items = []
        for k, v in stacks.items():
            if v:
                items.append((getattr(k, "__name__", None) or repr(k), tuple(repr(x) for x in v)))
        return (tuple(sorted(items)), min(failures, 1))

    seen = set()
    frontier = [()]
    complete = []
    while frontier and len(seen) < max_states and len(complete) < want:
        nxt = []
        for prefix in frontier:
            src = Prefix(prefix)
            try:
                prog = S.create_tree_using_stacks(g, src, failures_limit=failures_limit)
                if src.i == len(prefix):  # every draw of the prefix was needed
                    complete.append((prefix, list(src.ranges), prog))
                continue
            except _OutOfPrefix as stop:
                tb = stop.__traceback__
                loc = None
                while tb is not None:
                    if tb.tb_frame.f_code.co_name == "create_tree_using_stacks":
                        loc = tb.tb_frame.f_locals
                    tb = tb.tb_next
                if loc is None or "stacks" not in loc:
                    continue
                # (a draw requested in the middle of an operation belongs to the state: same stacks, other continuation)
                pending = (stop.lo, stop.hi, repr(loc.get("target_type")) if stop.hi - stop.lo + 1 < 100000 else "")
                k = canon(loc["stacks"], loc.get("failures", 0)) + (pending,)
                if k in seen and prefix:
                    continue
                seen.add(k)
                if len(prefix) < max_len:
                    for v in domain(stop.lo, stop.hi):
                        nxt.append(prefix + (v,))
            except Exception:  # noqa -- the machine gave up on this prefix
                continue
        frontier = nxt
    # a second copy of every completed prefix with the type-choice answers moved to the LAST value of the same interval:
    # the same path under the grammar's current weights, another one as soon as the weights in force differ
    variants = []
    for total, vals in type_choice_values.items():
        ends = sorted(v for v in vals)
        for prefix, ranges, prog in complete:
            moved = []
            for v, (lo, hi) in zip(prefix, ranges):
                if lo == 0 and hi - lo + 1 == total:
                    later = [e for e in ends if e >= v]
                    moved.append(later[0] if later and later[0] != v else (later[1] if len(later) > 1 and (later[0] == v and ends.index(v) % 2 == 0) else v))
                else:
                    moved.append(v)
            if tuple(moved) != tuple(prefix):
                variants.append((tuple(moved), ranges, prog))
    complete = complete + variants
    out = []
    for prefix, ranges, prog in complete:
        if len(prefix) < 2:
            continue
        # genes one full range above the drawn value: same residue, but sensitive to any change of the range they are
        # reduced by (ListWrapper advances its index before reading, hence the rotation)
        wrapped = [v + (hi - lo + 1) for v, (lo, hi) in zip(prefix, ranges)]
        genome = [wrapped[-1]] + wrapped[:-1]
        try:
            back = S.StackBasedGGGPRepresentation(g, gene_length=len(genome)).genotype_to_phenotype(S.Genotype(list(genome)))
        except BaseException:  # noqa
            continue
        if R.term(back) == R.term(prog):
            out.append((genome, R.term(prog)))
    return out


def _map(ctx: Ctx) -> Iterator[Event]:
    """All genotypes over the gene alphabet, mapped with genotype_to_phenotype; draws the
    mapping takes from the representation's shared source are explored by E1 as well."""
    u = ctx.unit
    rep_kind = u["rep"]
    d = unit_depth(ctx)
    L = u.get("L", 3)
    dec = u.get("decider", "maxdepth")
    max_execs = u.get("max_execs", 60)
    if rep_kind == "dsge":
        from geneticengine.representations.grammatical_evolution.dynamic_structured_ge import Genotype

        def run(src):
            rep = make_rep("dsge", ctx.g, src, d)
            gt = rep.create_genotype(src)
            return gt, rep.genotype_to_phenotype(gt)

        for ex in explore(run, max_execs=u.get("max_execs_total", 4000), horizon=u.get("horizon", 300), stats=ctx.stats,
                          source_kwargs={"wide_domain": gene_domain(GENES_DSGE)}):
            if ex.capped:
                continue
            gt, ph = ex.result if ex.result is not None else (None, None)
            yield Event("map", "dsge", ph, ex.exc, ex.choices, genotype=gt, source=ex.source, depth_limit=d)
        return
    alphabet = stack_alphabet(ctx.g) if rep_kind == "stack" else GENES
    if rep_kind == "stack":
        # the stack mapping needs one gene per node and per choice: use the longest genome the size of the
        # alphabet allows (|A|^L genotypes)
        L = max(L, 5 if len(alphabet) <= 4 else (4 if len(alphabet) <= 6 else 3))
    lists = gene_lists(L, alphabet)
    if rep_kind == "stack":
        # plus the genomes found by explicit-state search of the stack machine (they complete a program)
        # (grammars declared with string annotations reach the refinement search of the stack machine: search deeper)
        lists = itertools.chain(lists, (tuple(gn) for gn, _ in stack_guided_genomes(ctx.g, max_states=800 if ctx.spec.get("stringify") else 300,
                                                                                   want=120 if ctx.spec.get("stringify") else 60)))
    for dna in lists:
        dna = list(dna)
        if rep_kind == "ge":
            from geneticengine.representations.grammatical_evolution.ge import Genotype

            gt = Genotype(list(dna))
        elif rep_kind == "stack":
            from geneticengine.representations.stackgggp import Genotype

            gt = Genotype(list(dna))
        elif rep_kind == "sge":
            from geneticengine.representations.grammatical_evolution.structured_ge import Genotype, INFRASTRUCTURE_KEY

            keys = u.get("_sge_keys")
            if keys is None:
                from mc.explorer import ScriptedSource

                probe = make_rep("sge", ctx.g, ScriptedSource([0]), 10**5, gene_length=1).create_genotype(ScriptedSource([0]))
                keys = list(probe.dna.keys())
                u["_sge_keys"] = keys
            gt = Genotype({k: (list(dna) if k == INFRASTRUCTURE_KEY else [1] * L) for k in keys})
        else:
            raise ValueError(rep_kind)

        def run(src, gt=gt):
            rep = make_rep(rep_kind, ctx.g, src, d, gene_length=L, decider=dec)
            return rep.genotype_to_phenotype(gt)

        for ex in explore(run, max_execs=max_execs, horizon=u.get("horizon", 300), stats=ctx.stats):
            if ex.capped:
                continue
            yield Event("map", rep_kind, ex.result, ex.exc, ex.choices, genotype=gt, source=ex.source,
                        depth_limit=None if rep_kind == "stack" else d, extra={"dna": dna})



def dsge_populate(rep, gt):
    """dSGE genotypes only get genes when they are mapped: map every fresh genotype once."""
    try:
        rep.genotype_to_phenotype(gt)
    except Exception:  # noqa -- failing mappings are observed by the checks themselves
        pass


def _stack_roots(g, n: int = 6):
    """A few genomes that complete a program (explicit-state search of the stack machine) as further initial states."""
    import geneticengine.representations.stackgggp as S

    return [S.Genotype(list(gn)) for gn, _ in stack_guided_genomes(g)[:n]]


def _e2(ctx: Ctx) -> Iterator[Event]:
    u = ctx.unit
    rep_kind = u["rep"]
    d = unit_depth(ctx)
    L = u.get("L", 3)
    dec = u.get("decider", "maxdepth")
    K = u.get("K", 2)
    skw = {}
    if rep_kind == "stack":
        skw = {"wide_domain": gene_domain(stack_alphabet(ctx.g))}
    elif rep_kind in ("ge", "sge"):
        skw = {"wide_domain": gene_domain(GENES)}
    elif rep_kind == "dsge":
        skw = {"wide_domain": gene_domain(GENES_DSGE)}

    def mk(src):
        return make_rep(rep_kind, ctx.g, src, d, gene_length=L, decider=dec)

    ss = StateSpace(
        mk,
        max_states=u.get("max_states", 40),
        max_execs_per_op=u.get("max_execs_per_op", 150),
        max_partners=u.get("max_partners", 4),
        horizon=u.get("horizon", 400),
        source_kwargs=skw,
        ops=tuple(u.get("ops", ("mutate", "crossover"))),
        post=dsge_populate if rep_kind == "dsge" else None,
        roots=(lambda: _stack_roots(ctx.g)) if rep_kind == "stack" else None,
    )
    ctx.e2 = ss
    pending: list = []
    # state spaces are small: run the BFS to completion, then flush the buffered transitions
    ss.run(K, pending.append)
    for tr in pending:
        results = tr.result if (tr.op == "crossover" and isinstance(tr.result, tuple)) else (tr.result,)
        if tr.exc is not None:
            yield Event(tr.op, rep_kind, None, tr.exc, tr.choices, parents=tr.parent_objs, source=tr.source,
                        depth_limit=d if rep_kind != "stack" else None, extra={"parents_idx": tr.parents, "tr": tr})
            continue
        for gt in results:
            if rep_kind == "tree":
                yield Event(tr.op, rep_kind, gt, None, tr.choices, genotype=gt, parents=tr.parent_objs, source=tr.source,
                            depth_limit=d, extra={"parents_idx": tr.parents, "tr": tr})
            else:
                # map the offspring genotype (default answers for any shared-source draw)
                from mc.explorer import ExhaustiveSource

                ph, exc = None, None
                try:
                    src = ExhaustiveSource((), horizon=u.get("horizon", 400), **skw)
                    ph = mk(src).genotype_to_phenotype(gt)
                except HorizonExceeded:
                    ctx.stats.capped_paths += 1
                    continue
                except (Exception, RecursionError) as e:  # noqa
                    exc = e
                ctx.stats.executions += 1
                yield Event(tr.op, rep_kind, ph, exc, tr.choices, genotype=gt, parents=tr.parent_objs, source=tr.source,
                            depth_limit=d if rep_kind != "stack" else None,
                            extra={"parents_idx": tr.parents, "tr": tr, "mapped": True})
    ctx.stats.merge(ss.stats.explore)


# ---------------------------------------------------------------------------------------
# generic driver used by the producer-based checks


def standard_units(tier: str, family=None, deciders=("maxdepth", "full", "pigrow"), with_pt=True,
                   reps_map=("ge", "sge", "dsge", "stack"), reps_e2=("tree", "ge", "sge", "dsge", "stack")):
    fam = family if family is not None else G.general_family(tier)
    us = []
    for spec in fam:
        for dec in (deciders if not spec.get("stringify") else deciders[:1]):
            for off in (0, 1) if tier == "quick" else (0, 1, 2):
                us.append({"kind": "tree-create", "spec": spec, "decider": dec, "depth_off": off,
                           "max_execs": 1500 if tier == "quick" else 20000})
        if with_pt and not spec.get("stringify"):
            us.append({"kind": "tree-create", "spec": spec, "decider": "pt", "depth_off": 0, "horizon": 40,
                       "max_execs": 400 if tier == "quick" else 5000})
    small = [s for s in fam if s["name"].split(":")[0] in
             ("S1", "S2", "S3", "S5", "S6", "S7", "S8", "S9", "S10", "S11", "S12", "S13", "S14", "S15", "S16", "S17", "S18", "S19", "S20", "S21", "S22", "S23", "S24", "S26", "S27", "S28", "S29", "S30", "S31", "S32", "S33", "S34", "S35", "S36", "S37")]
    small += [s for s in fam if s["name"].startswith(("F1:", "G1:")) and s["name"].count(",") == 0]
    if tier != "quick":
        # thorough: the two-abstract and nested families as well (the two-field F1/G2 grammars stay with tree creation)
        small += [s for s in fam if s["name"].startswith(("F2:", "F3:", "G3:"))]
    for spec in small:
        for rep in reps_map:
            us.append({"kind": "map", "spec": spec, "rep": rep, "depth_off": 1, "L": 3 if tier == "quick" else 4,
                       "max_execs": 20 if tier == "quick" else 100})
        for rep in reps_e2:
            if spec.get("stringify") and rep not in ("tree", "stack"):
                continue
            us.append({"kind": "e2", "spec": spec, "rep": rep, "depth_off": 1, "L": 3 if rep == "stack" else 2,
                       "K": 2 if tier == "quick" else 3,
                       "max_states": 25 if tier == "quick" else 80,
                       "max_execs_per_op": 60 if tier == "quick" else 300})
    shapes = {s["name"].split(":")[0]: s for s in G.family_shapes()}
    for base, cls_name, field, new_t in (
        ("S1", "Lit", "v", ["ann", "int", ["IntRange", 5, 6]]),
        ("S1", "Lit", "v", ["ann", "float", ["FloatList", [0.5, 1.5]]]),
        ("S1", "Var", "n", ["ann", "str", ["VarRange", ["z"]]]),
        ("S2", "N", "a", ["ref", "L"]),
        ("S9", "M", "xs", ["ann", ["list", ["ref", "C"]], ["LSB", 2, 2]]),
    ):
        for dec in ("maxdepth", "pigrow"):
            us.append({"kind": "tree-create", "spec": shapes[base], "decider": dec, "depth_off": 1, "max_execs": 600,
                       "reannotate": [cls_name, field, new_t]})
        if "ge" in reps_map:
            us.append({"kind": "map", "spec": shapes[base], "rep": "ge", "depth_off": 1, "L": 3, "max_execs": 20,
                       "reannotate": [cls_name, field, new_t]})
    return us


def clean_unit(unit):
    return {k: v for k, v in unit.items() if not k.startswith("_")}


def site_of(ev) -> str:
    names = {
        ("tree", "create"): "TreeBasedRepresentation.create_genotype",
        ("tree", "mutate"): "TreeBasedRepresentation.mutate",
        ("tree", "crossover"): "TreeBasedRepresentation.crossover",
    }
    if (ev.rep, ev.op) in names:
        return names[(ev.rep, ev.op)]
    if ev.op == "map" or ev.extra.get("mapped"):
        return f"{ev.rep}.genotype_to_phenotype"
    return f"{ev.rep}.{ev.op}"


def drive(unit, oracle, sample=None):
    """Run one producer unit; oracle(ctx, ev, r, tm) is called for every event that produced a
    program (tm = its canonical term).  Returns a UnitResult."""
    from mc.harness import UnitResult

    r = UnitResult()
    ctx = open_ctx(unit)
    try:
        if ctx.g is None:
            r.count("extract_failed")
            return r
        seen = set()
        for ev in produce(ctx):
            r.executions += 1
            if ev.exc is not None:
                r.count("library_errors" if is_library_error(ev.exc) else "foreign_exceptions(C01's business)")
                oracle(ctx, ev, r, None)
                continue
            tm = R.term(ev.result)
            if tm not in seen:
                seen.add(tm)
                if len(r.samples) < 2:
                    r.samples.append(sample(ctx, ev, tm) if sample else
                                     {"grammar": ctx.spec["name"], "unit": unit["kind"], "rep": ev.rep,
                                      "decider": unit.get("decider"), "program": R.show(tm)[:200]})
            oracle(ctx, ev, r, tm)
        r.states += len(seen)
        r.capped += ctx.stats.capped_paths
        r.abstracted += ctx.stats.abstracted_points
        r.truncated = ctx.stats.truncated
        if ctx.stats.truncated:
            r.count("units_truncated_by_exec_cap")
    finally:
        ctx.bundle.cleanup()
    return r
