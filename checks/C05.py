"""C05 -- grammar analysis is exact: productions, minimum depths, recursion, reachability."""
from __future__ import annotations

from mc import grammars as G
from mc import refsem as R
from mc.explorer import ExploreStats, explore
from mc.harness import UnitResult, Violation
from mc.snapshot import tname
from checks.common import exc_brief, is_library_error, make_rep

PROP = "C05"
TECHNIQUE = (
    "exhaustive enumeration of a generated family of class hierarchies (both depth-counting modes); the analysis "
    "results are compared with an independent least-fixed-point / graph-search reference that is itself validated "
    "against the enumerated bounded language; usable_grammar() compared by exhaustive choice-tree enumeration (E1); the analysis of a grammar is re-checked after sibling grammars over the same class objects (one production left out each, other depth mode) were extracted; every iteration order of the symbol sets for small hierarchies"
)
RULE = (
    "unit = hierarchy spec x depth mode; oracle per registered symbol: productions, minimum depth, recursive flag, "
    "reachable set; non-trivial = symbol that is abstract with >=2 productions, recursive, or unreachable"
)


S25 = {"name": "S25:empty-nested-abstract", "abstract": [["A", None, "ABC"], ["B", "A", "decorator"], ["Bx", "B", "decorator"]],
       "prods": [["L", "A", None, [["v", G.IR01]]], ["P", "A", None, [["x", G.ref("A")]]]], "start": "A"}


def hierarchies(tier):
    fam = G.general_family(tier)
    extra = [S25]
    # unreachable classes / partial considered lists / productions listed in different orders
    for spec in [s for s in fam if s["name"].startswith(("S", "F2:", "F3:"))]:
        s2 = dict(spec)
        s2["name"] = spec["name"] + "+unreach"
        s2["abstract"] = list(spec["abstract"]) + [["Zz", None, "ABC"]]
        s2["prods"] = list(spec["prods"]) + [["Uu", "Zz", None, [["v", G.IR01]]], ["Ww", None, None, [["z", G.ref("Zz")]]]]
        if spec.get("considered") is not None:
            s2["considered"] = list(spec["considered"]) + ["Uu", "Ww"]
        extra.append(s2)
        s3 = dict(spec)
        s3["name"] = spec["name"] + "+rev"
        s3["prods"] = list(reversed(spec["prods"]))
        # productions must still be declared before they are referenced by a *class object*; reversed order only
        # works when references go through abstract types, which build() resolves by name
        extra.append(s3)
    return fam + extra


CHAIN5 = {"name": "CHAIN5", "abstract": [["E", None, "ABC"], ["T", None, "ABC"]],
          "prods": [["ET", "E", None, [["t", ["ref", "T"]]]], ["TE", "T", None, [["e", ["ref", "E"]]]],
                    ["Num", "T", None, [["v", G.IR01]]]], "start": "E"}


def units(tier, seed):
    us = []
    for spec in hierarchies(tier):
        for xd in (False, True):
            us.append({"spec": spec, "xd": xd, "lang_cap": 3000 if tier == "quick" else 50000})
    # the analysis iterates Python sets of classes: repeat it under every iteration order of those sets (dictated
    # through a metaclass with a harness-controlled __hash__) for hierarchies of <= 5 classes, and under a fixed
    # family of 60 orders for larger ones
    shapes = {s["name"].split(":")[0]: s for s in G.family_shapes()}
    for spec in [CHAIN5, shapes["S3"], shapes["S18"], shapes["S20"], shapes["S2"], shapes["S9"], shapes["S15"]]:
        us.append({"spec": spec, "xd": False, "lang_cap": 3000, "orders": True})
    for spec in [s for s in G.finite_family(tier) if s["name"].startswith(("S", "F2:"))] + [CHAIN5]:
        for xd in (False, True):
            us.append({"spec": spec, "xd": xd, "lang_cap": 3000, "siblings": True})
    return us


def order_family(k):
    import itertools
    import random as _random

    if k <= 5:
        return list(itertools.permutations(range(k)))
    rng = _random.Random(20260926)
    base = list(range(k))
    out = []
    for i in range(k):
        rot = base[i:] + base[:i]
        out += [tuple(rot), tuple(reversed(rot))]
    for _ in range(60):
        p = base[:]
        rng.shuffle(p)
        out.append(tuple(p))
    return list(dict.fromkeys(out))


def run_orders(unit) -> UnitResult:
    r = UnitResult()
    spec = unit["spec"]
    names = [a[0] for a in spec["abstract"]] + [p[0] for p in spec["prods"]]
    ref_rec = R.ref_recursive(spec)
    refd = R.ref_min_depth(spec, False, exact=False)
    seen_orders = set()
    for perm in order_family(len(names)):
        ho = {n: 3 + p for n, p in zip(names, perm)}
        b = G.build(spec, hash_order=ho)
        try:
            g = b.extract()
            r.executions += 1
            seen_orders.add(tuple(tname(c) for c in g.all_nodes))
            got_rec = {tname(c) for c in g.recursive_prods if c.__module__ != "builtins"}
            w = {"unit": unit, "hash_order": ho}
            if got_rec != ref_rec:
                r.add_violation(Violation(PROP, "Grammar.recursive_prods", "wrong-recursive-set",
                                          {"xd": False, "missing": sorted(ref_rec - got_rec) != [], "extra": sorted(got_rec - ref_rec) != [], "order_dependent": True}, w,
                                          f"{spec['name']}: under the symbol-set iteration order {[tname(c) for c in g.all_nodes]} recursive_prods = "
                                          f"{sorted(got_rec)}, reference = {sorted(ref_rec)}"))
            for c in g.all_nodes:
                n = tname(c)
                if n in refd and g.distanceToTerminal.get(c) != refd[n] and not any(R.may_be_empty_list(ft) for p in spec["prods"] for _, ft in p[3]):
                    r.add_violation(Violation(PROP, "Grammar.distanceToTerminal", "wrong-minimum-depth", {"sign": "order", "cause": "order-dependent"}, w,
                                              f"{spec['name']}: distanceToTerminal[{n}] = {g.distanceToTerminal.get(c)} under one iteration order, reference {refd[n]}"))
        finally:
            b.cleanup()
    r.count("iteration_orders_tried", r.executions)
    r.count("distinct_all_nodes_orders", len(seen_orders))
    r.states = len(seen_orders)
    r.nontrivial = len(seen_orders)
    r.samples.append({"grammar": spec["name"], "orders": r.executions, "distinct_all_nodes_orders": len(seen_orders)})
    return r


def reg_names(g):
    return {tname(c) for c in g.all_nodes if c.__module__ != "builtins"}


def run_unit(unit) -> UnitResult:
    if unit.get("orders"):
        return run_orders(unit)
    r = UnitResult()
    spec = unit["spec"]
    xd = unit["xd"]
    try:
        b = G.build(spec)
    except Exception as e:  # a spec the builder cannot realise (e.g. reversed order with object references)
        r.count("spec_not_buildable")
        return r
    try:
        w = {"unit": unit}
        try:
            g = b.extract(xd)
        except Exception as e:  # noqa
            r.executions += 1
            if not is_library_error(e):
                r.add_violation(Violation(PROP, "extract_grammar", "foreign-exception", {"exc": type(e).__name__}, w,
                                          f"{spec['name']}: {exc_brief(e)}"))
            return r
        r.executions += 1
        if unit.get("siblings"):
            # other grammars over the same class objects are extracted in between (each leaves out one production, or
            # uses the other depth mode): nothing they compute may show in the analysis of g, which is checked below
            from geneticengine.grammar.grammar import extract_grammar

            for drop in [p[0] for p in spec["prods"]] + [None]:
                cons = [c for c in b.considered if c.__name__ != drop]
                try:
                    extract_grammar(cons, b.start, (not xd) if drop is None else xd)
                    r.count("sibling_grammars_extracted")
                except Exception:  # noqa -- an invalid sub-grammar is fine here
                    r.count("sibling_grammars_invalid")
        view = R.SpecView(spec)
        reach = R.ref_reachable(spec)
        # "supplied classes" = considered + start; the registration also pulls parents of registered classes
        considered = spec.get("considered")
        supplied = set(view.types) if considered is None else set(considered) | {spec["start"]}
        # --- productions
        alts = {tname(k): [tname(x) for x in v] for k, v in g.alternatives.items()}
        registered = reg_names(g)
        for a in sorted(view.abstract):
            ref_prods = [c for c in view.productions(a) if c in supplied or c in registered and c in reach]
            ref_set = {c for c in view.productions(a) if (c in supplied or view.is_abstract(c))}
            if a not in reach and a not in alts:
                continue
            got = alts.get(a, [])
            # only children that are themselves relevant: supplied classes, or abstract layers leading to supplied ones
            ref_set = {c for c in ref_set if _leads_to_supplied(view, c, supplied)}
            if a in reach or a in alts:
                r.count("abstract_symbols_checked")
                if len(ref_set) >= 2:
                    r.nontrivial += 1
                if len(got) != len(set(got)):
                    r.add_violation(Violation(PROP, "Grammar.alternatives", "duplicate-production", {"xd": xd}, w,
                                              f"{spec['name']}: alternatives[{a}] = {got}"))
                if set(got) != ref_set and a in reach:
                    r.add_violation(Violation(PROP, "Grammar.alternatives", "wrong-productions", {"xd": xd}, w,
                                              f"{spec['name']}: alternatives[{a}] = {got}, direct subtypes = {sorted(ref_set)}"))
        # --- minimum depths
        refd = R.ref_min_depth(spec, xd)
        for c in g.all_nodes:
            n = tname(c)
            if c.__module__ == "builtins":
                continue
            if n not in refd:
                continue
            r.count("symbols_checked")
            got = g.distanceToTerminal.get(c)
            # symbols that cannot derive anything through supplied classes are outside the reference
            want = _ref_min_supplied(spec, xd, supplied, registered, True)[n]
            if got != want:
                conservative = _ref_min_supplied(spec, xd, supplied, registered, False)[n]
                cause = "possibly-empty-list-counted-as-element" if got == conservative else "other"
                r.add_violation(Violation(PROP, "Grammar.distanceToTerminal", "wrong-minimum-depth",
                                          {"sign": "over" if (got or 0) > want else "under", "cause": cause}, w,
                                          f"{spec['name']} (expansion_depthing={xd}): distanceToTerminal[{n}] = {got}, "
                                          f"shallowest program has depth {want}"))
        # --- recursion
        ref_rec = R.ref_recursive(_restrict(spec, registered))
        got_rec = {tname(c) for c in g.recursive_prods if c.__module__ != "builtins"}
        r.nontrivial += len(ref_rec)
        if got_rec != ref_rec:
            r.add_violation(Violation(PROP, "Grammar.recursive_prods", "wrong-recursive-set",
                                      {"xd": xd, "missing": sorted(ref_rec - got_rec) != [], "extra": sorted(got_rec - ref_rec) != []}, w,
                                      f"{spec['name']}: recursive_prods = {sorted(got_rec)}, reference = {sorted(ref_rec)}"))
        # --- reachable sub-grammar
        try:
            ug = g.usable_grammar()
            r.executions += 1
            got_reach = reg_names(ug)
            ref_reach = R.ref_reachable(_restrict(spec, registered))
            # parents of reachable classes are registered as well (they carry the productions)
            ref_reach_closed = set(ref_reach)
            for n in list(ref_reach):
                p = view.parent.get(n)
                while p is not None:
                    ref_reach_closed.add(p)
                    p = view.parent.get(p)
            if len(ref_reach_closed) < len(registered):
                r.nontrivial += 1
            if not (ref_reach <= got_reach <= ref_reach_closed):
                r.add_violation(Violation(PROP, "Grammar.usable_grammar", "wrong-reachable-set", {"xd": xd}, w,
                                          f"{spec['name']}: usable symbols {sorted(got_reach)}, reachable {sorted(ref_reach)}"))
            if not xd:
                _same_language(spec, g, ug, r, w, unit)
        except Exception as e:  # noqa
            if not is_library_error(e):
                r.add_violation(Violation(PROP, "Grammar.usable_grammar", "foreign-exception", {"exc": type(e).__name__, "xd": xd}, w,
                                          f"{spec['name']}: {exc_brief(e)}"))
        # --- validate the reference itself against the enumerated language (tree mode, finite-choice specs)
        if not xd:
            try:
                refx = R.ref_min_depth(spec, False, exact=True)
                for n in sorted(reach):
                    if refx[n] >= R.INF:
                        continue
                    lang = R.language(spec, refx[n] + 1, cap=unit["lang_cap"], root=["ref", n])
                    m = min((d for _, d in lang), default=R.INF)
                    if m != refx[n]:
                        raise AssertionError(f"reference min depth {refx[n]} != enumerated {m} for {spec['name']}:{n}")
                r.count("reference_validated_by_enumeration")
            except R.TooLarge:
                r.count("reference_not_enumerable")
        r.states = 1
        if len(r.samples) < 1:
            r.samples.append({"grammar": spec["name"], "xd": xd, "distance": {tname(k): v for k, v in g.distanceToTerminal.items()},
                              "recursive": sorted(got_rec)})
    finally:
        b.cleanup()
    return r


def _leads_to_supplied(view, c, supplied) -> bool:
    if c in supplied:
        return True
    if view.is_abstract(c):
        return any(_leads_to_supplied(view, x, supplied) for x in view.productions(c))
    return False


def _restrict(spec, names):
    """The spec restricted to the classes the grammar actually registered."""
    s = dict(spec)
    s["abstract"] = [a for a in spec["abstract"] if a[0] in names]
    s["prods"] = [p for p in spec["prods"] if p[0] in names]
    return s


_cache: dict = {}


def _ref_min_supplied(spec, xd, supplied, registered, exact):
    key = (spec["name"], xd, exact)
    if key not in _cache:
        if len(_cache) > 8:
            _cache.clear()
        _cache[key] = R.ref_min_depth(_restrict_refs(spec, registered), xd, exact=exact)
    return _cache[key]


def _restrict_refs(spec, names):
    """Like _restrict but keeps field types intact (unregistered referenced classes get INF)."""
    s = dict(spec)
    s["abstract"] = list(spec["abstract"])
    s["prods"] = [p for p in spec["prods"] if p[0] in names or True]
    # classes that were not registered cannot be produced: drop them as productions of their parent
    s["prods"] = [p if p[0] in names else [p[0], None, p[2], p[3]] for p in s["prods"]]
    return s


def _same_language(spec, g, ug, r, w, unit):
    """reach_grow(usable, d) == reach_grow(G, d) by exhaustive choice-tree enumeration."""
    d = g.get_min_tree_depth() + 1
    if d >= R.INF:
        return
    sets = []
    for gg in (g, ug):
        progs = set()
        st = ExploreStats()

        def run(src, gg=gg):
            return make_rep("tree", gg, src, d).create_genotype(src)

        for ex in explore(run, max_execs=800, horizon=200, stats=st):
            r.executions += 1
            if ex.exc is None and not ex.capped:
                progs.add(R.term(ex.result))
        if st.truncated:
            r.count("language_comparison_truncated")
            return
        sets.append(progs)
    r.count("usable_language_compared")
    if sets[0] != sets[1]:
        only_g = [R.show(t) for t in list(sets[0] - sets[1])[:2]]
        only_u = [R.show(t) for t in list(sets[1] - sets[0])[:2]]
        r.add_violation(Violation(PROP, "Grammar.usable_grammar", "different-language", {}, w,
                                  f"{spec['name']}: depth {d}: only in G {only_g}, only in usable {only_u}"))


def finalize(cr):
    cr.require("symbols_checked")
    cr.require("reference_validated_by_enumeration")
    cr.require("usable_language_compared")
    cr.require("distinct_all_nodes_orders")
    cr.assumptions += [
        "shipped grammars (geml.grammars, examples, tests) are not loaded by this check yet; the generated family "
        "re-declares the shapes used by the test-suite (S5, S6, S7)",
    ]
