"""C20 -- the CSV search log is faithful and is a valid prefix at every interruption point."""
from __future__ import annotations

import csv
import io
import itertools
import os
import shutil
import tempfile
import types

import geneticengine.evaluation.recorder as recmod
from geneticengine.evaluation.recorder import CSVSearchRecorder, SearchRecorder
from geneticengine.evaluation.sequential import SequentialEvaluator
from geneticengine.evaluation.tracker import MultiObjectiveProgressTracker, SingleObjectiveProgressTracker
from geneticengine.problems import MultiObjectiveProblem, SingleObjectiveProblem
from geneticengine.representations.api import Representation
from geneticengine.solutions.individual import Individual

from mc.harness import UnitResult, Violation
from checks.common import exc_brief

PROP = "C20"
LEVEL_NOTE = (
    "crash model: the process can die between any two raw write() calls reaching the OS (every prefix of the raw write "
    "log is a crash image); torn raw writes and OS/page-cache behaviour are not modelled; the in-memory device is "
    "conformance-checked against a real file read back after every registration"
)
TECHNIQUE = (
    "fault enumeration: every evaluation history up to length 4-5 x objectives x field configuration x recording mode x "
    "phenotype text class is replayed through the real tracker and CSVSearchRecorder on an in-memory raw device that logs "
    "each raw write; the file image is checked after every register() and for EVERY prefix of the raw write log; the device has an initial content (the log an earlier run left at the same path) that only a truncating open discards; histories in which the current best individual is presented to the tracker again"
)
RULE = (
    "history = sequence of fitness vectors (components distinct per objective) evaluated one by one; case non-trivial = "
    ">= 2 objectives, extra fields, text needing CSV quoting, or a row larger than the 8 KiB buffer"
)


STALE = b"Old,Header\r\nstale,row\r\n"  # what an earlier run left at the same path


class RawDevice(io.RawIOBase):
    """In-memory file: `initial` is what the path held when it was opened (kept only by a non-truncating open)."""

    def __init__(self):
        self.writes: list[bytes] = []
        self.initial = b""
        self.opened = False

    def writable(self):
        return True

    def seekable(self):
        return True

    def tell(self):
        return len(self.initial) + sum(len(w) for w in self.writes)

    def seek(self, offset, whence=0):
        end = self.tell()
        if (whence == 2 and offset == 0) or (whence == 1 and offset == 0) or (whence == 0 and offset == end):
            return end
        raise io.UnsupportedOperation("the model device is append-only")

    def write(self, b):
        self.writes.append(bytes(b))
        return len(b)

    def image(self, k) -> bytes:
        return self.initial + b"".join(self.writes[:k])

    def content(self) -> bytes:
        return self.initial + b"".join(self.writes)


class Prog:
    def __init__(self, i, text):
        self.i = i
        self.text = text

    def __repr__(self):
        return self.text

    __str__ = __repr__


class Geno:
    """The genotype: prints differently from the program it maps to (as every representation but the tree-based does)."""

    def __init__(self, i, text):
        self.i = i
        self.text = text

    def __repr__(self):
        return f"Geno(dna=[{self.i}])"

    __str__ = __repr__


class Rep(Representation):
    def create_genotype(self, random, **kw):
        raise NotImplementedError

    def genotype_to_phenotype(self, g):
        return Prog(g.i, g.text)


TEXTS = {
    "short": lambda i: f"p{i}",
    "quoting": lambda i: f'P{i}, "quoted",\nnew line {i}',
    "long": lambda i: f"L{i}:" + ("x" * 9000),
}


_TG: dict = {}


def _tiny_grammar():
    if "g" not in _TG:
        from mc import grammars as G

        _TG["b"] = G.build(G.family_shapes()[0])
        _TG["g"] = _TG["b"].extract()
    return _TG["g"]


class Flags(SearchRecorder):
    def __init__(self):
        self.flags = []

    def register(self, tracker, individual, problem, is_best):
        self.flags.append((individual, is_best))


def units(tier, seed):
    us = []
    for nobj in (1, 2, 3):
        for fields in ("default", "given"):
            for extra in (0, 1, 2, "simplegp2"):
                for only_best in (True, False):
                    for text in ("short", "quoting", "long"):
                        if tier == "quick" and text == "long" and (nobj == 3 or extra == 1):
                            continue
                        us.append({"nobj": nobj, "fields": fields, "extra": extra, "only_best": only_best, "text": text,
                                   "L": (3 if nobj > 1 else 4) if tier == "quick" else (4 if nobj > 1 else 5)})
    for nobj in (1, 2, 3):
        for only_best in (True, False):
            for fields in ("default", "given"):
                us.append({"nobj": nobj, "fields": fields, "extra": 1 if fields == "given" else 0, "only_best": only_best, "text": "short",
                           "L": 3 if tier == "quick" else 4, "represent": True})
    for only_best in (True, False):
        # infinitely bad / good fitness values (the usual penalty for invalid programs) in the history
        us.append({"nobj": 1, "fields": "default", "extra": 0, "only_best": only_best, "text": "short", "L": 3, "extreme": True})
        us.append({"nobj": 1, "fields": "given", "extra": 1, "only_best": only_best, "text": "short", "L": 3, "extreme": True, "represent": True})
    for nobj in (1, 2):
        for only_best in (True, False):
            for fields in ("default", "given"):
                # an extra field with the name of an existing column replaces that column (one header cell, one row cell)
                us.append({"nobj": nobj, "fields": fields, "extra": "override", "only_best": only_best, "text": "short", "L": 3})
                # individuals that were evaluated for another problem before they reach this tracker
                us.append({"nobj": nobj, "fields": fields, "extra": 1, "only_best": only_best, "text": "short", "L": 3, "other_problem_first": True})
    for nobj in (1, 2):
        for only_best in (True, False):
            us.append({"nobj": nobj, "fields": "given", "extra": "simplegp2", "only_best": only_best, "text": "short", "L": 4 if nobj == 1 else 3,
                       "ephemeral": True})
            us.append({"nobj": nobj, "fields": "given", "extra": 2, "only_best": only_best, "text": "short", "L": 4 if nobj == 1 else 3,
                       "ephemeral": True})
    for only_best in (True, False):
        us.append({"nobj": 1, "fields": "given", "extra": "simplegp2", "only_best": only_best, "text": "short", "L": 4, "minimize_list1": True})
    return us


def run_unit(unit) -> UnitResult:
    r = UnitResult()
    nobj, L = unit["nobj"], unit["L"]
    tmp = tempfile.mkdtemp(prefix="verif_c20_")
    real_open = open
    try:
        alpha = [0, 1, 2] if not unit.get("extreme") else [float("-inf"), 0, float("inf")]
        prev_log = None
        for seq in itertools.product(alpha, repeat=L):
            for conformance in ((False, True) if seq == tuple([0, 1, 2, 1, 0][:L]) else (False,)):
                dev = RawDevice()
                path = os.path.join(tmp, "log.csv")

                stale = sum(seq) % 2 == 1  # the path already holds the log of an earlier run
                if conformance and stale:
                    with real_open(path, "wb") as fh:
                        fh.write(STALE)
                elif conformance and os.path.exists(path):
                    os.unlink(path)

                def fake_open(p, mode="r", newline=None, **kw):
                    if "r" in mode and "+" not in mode:
                        raise AssertionError("the recorder is not expected to read")
                    dev.initial = STALE if stale and "w" not in mode else b""
                    dev.opened = True
                    return io.TextIOWrapper(io.BufferedWriter(dev), newline=newline, encoding="utf-8")

                recmod.open = real_open if conformance else fake_open
                try:
                    table = {}

                    def ff(p):
                        base = table[p.i]
                        if nobj == 1 and unit.get("minimize_list1"):
                            return [float(base)]  # a single objective given in list form
                        if nobj == 1:
                            return float(base)
                        return [float(base + 10 * k) for k in range(nobj)]  # distinct per objective

                    if nobj == 1:
                        problem = SingleObjectiveProblem(ff, minimize=False)
                        Tracker = SingleObjectiveProgressTracker
                    else:
                        problem = MultiObjectiveProblem([False] * nobj, ff)
                        Tracker = MultiObjectiveProgressTracker
                    extra_cbs = {}
                    names = []
                    if unit["extra"] in (1, 2):
                        for k in range(unit["extra"]):
                            extra_cbs[f"X{k}"] = (lambda k: (lambda t, i, p: f"x{k}:{i.get_phenotype().i}"))(k)
                            names.append(f"X{k}")
                    if unit["extra"] == "override":
                        col = "Text" if unit["fields"] == "given" else "Phenotype"
                        extra_cbs[col] = lambda t, i, p: f"ov:{i.get_phenotype().i}"
                    fields = None
                    if unit["fields"] == "given":
                        fields = {"Id": lambda t, i, p: i.get_phenotype().i, "Text": lambda t, i, p: i.get_phenotype()}
                        for k in range(nobj):
                            fields[f"F{k}"] = (lambda k: (lambda t, i, p: i.get_fitness(p).fitness_components[k]))(k)
                    flags = Flags()
                    if unit["extra"] == "simplegp2":
                        from geml.simplegp import SimpleGP

                        cbs = {"A": lambda ph: f"a:{ph.i}", "B": lambda ph: f"b:{ph.i}"}
                        if unit["fields"] == "given":
                            # through the public constructor (its own problem object is swapped for ours afterwards)
                            sgp = SimpleGP(ff, _tiny_grammar(), minimize=(False if not unit.get("minimize_list1") else [False]) if nobj == 1 else [False] * nobj,
                                           csv_output=path,
                                           csv_extra_fields=cbs, only_record_best_individuals=unit["only_best"], population_size=4,
                                           max_evaluations=4, elitism=1, novelty=1)
                            tracker = sgp.gp.tracker
                            problem = sgp.problem
                        else:
                            tracker = SimpleGP.build_recorder(object(), problem, path, unit["only_best"], False, cbs)
                        tracker.recorders.insert(0, flags)
                        rec = [x for x in tracker.recorders if isinstance(x, CSVSearchRecorder)][0]
                        if fields is not None:
                            continue_fields = True
                        names = ["A", "B"]
                        expect_extra = {"A": lambda ind: f"a:{ind.genotype.i}", "B": lambda ind: f"b:{ind.genotype.i}"}
                    else:
                        rec = CSVSearchRecorder(path, problem, fields=fields, extra_fields=extra_cbs or None,
                                                only_record_best_individuals=unit["only_best"])
                        tracker = Tracker(problem, SequentialEvaluator(), recorders=[flags, rec])
                        expect_extra = {f"X{k}": (lambda k: (lambda ind: f"x{k}:{ind.genotype.i}"))(k) for k in range(len(extra_cbs))}
                    header_writes = len(dev.writes)
                    if not conformance and not dev.opened:
                        # the recorder did not go through the intercepted open(): observe the real file instead
                        # (registration-boundary images only; crash enumeration needs the device)
                        r.count("device_not_intercepted")
                        conformance = True
                    rep = Rep()
                    boundaries = [len(dev.writes)]  # raw-write indices at which a registration completed
                    expected_rows = []
                    best_so_far = None
                    only_best_effective = unit["only_best"]
                    ok = True
                    inds_by_i = {}
                    events = []
                    for i, f in enumerate(seq):
                        events.append(("new", i))
                        if unit.get("represent"):
                            # the individual holding the best aggregate so far is presented to the tracker again
                            # (as Population does with survivors in every generation)
                            bi = max(range(i + 1), key=lambda j: (seq[j], -j))
                            events.append(("again", bi))
                    expected_at = []
                    # programs exist before the loop: inside it only Individual objects are allocated and (in ephemeral
                    # histories) freed, so a new individual readily takes the address of the one that just died
                    progs = [Geno(i, TEXTS[unit["text"]](i)) for i in range(len(seq))]
                    dead_ids: set = set()
                    if nobj == 1:
                        other_problem = SingleObjectiveProblem(lambda p: 1000.0 + p.i, minimize=True)
                    else:
                        other_problem = MultiObjectiveProblem([True] * nobj, lambda p: [1000.0 + p.i + k for k in range(nobj)])
                    for e, (what, i) in enumerate(events):
                        f = seq[i]
                        if what == "new":
                            table[i] = f
                            inds_by_i[i] = Individual(progs[i], rep)
                            if unit.get("ephemeral") and dead_ids:
                                # make the new individual take the address of a registered one that has died since (whether
                                # the allocator hands a freed block out again at once depends on the interpreter's state:
                                # keep the candidates that got another address alive and ask again)
                                spare = []
                                while id(inds_by_i[i]) not in dead_ids and len(spare) < 400:
                                    spare.append(inds_by_i[i])
                                    inds_by_i[i] = Individual(progs[i], rep)
                                if id(inds_by_i[i]) in dead_ids:
                                    r.count("individuals_created_at_the_address_of_a_dead_one")
                                del spare
                        ind = inds_by_i[i]
                        if unit.get("other_problem_first") and what == "new":
                            # the individual already carries a fitness for another problem (with other values)
                            SequentialEvaluator().evaluate(other_problem, [ind])
                        try:
                            tracker.evaluate([ind])
                        except Exception as ex:  # noqa: the fitness function and the callbacks are the harness's and do not raise
                            r.add_violation(Violation(PROP, "Tracker.evaluate", "registration-raised",
                                                      {"exc": type(ex).__name__, "simplegp": unit["extra"] == "simplegp2"},
                                                      {"unit": unit, "sequence": list(seq), "after_registration": e},
                                                      f"objectives={nobj} fields={unit['fields']} extra={unit['extra']} history {seq[: i + 1]}: registering the "
                                                      f"individual raised {type(ex).__name__}: {str(ex)[:120]} (the row is lost and the search dies)"))
                            ok = False
                            break
                        r.executions += 1
                        # which registrations must be logged is decided by an independent reference, not by the
                        # tracker's own flag: strict improvements (single objective) / not worse than the best
                        # aggregate so far (multi-objective front), or everything in record-all mode
                        agg = float(f) if nobj == 1 else float(sum(f + 10 * k for k in range(nobj)))
                        if nobj == 1:
                            improved = best_so_far is None or agg > best_so_far
                        else:
                            improved = best_so_far is None or agg >= best_so_far
                        if improved:
                            best_so_far = agg
                        if (not only_best_effective) or improved:
                            # (ephemeral histories keep only the program: the Individual object must be free to die)
                            expected_rows.append(ind if not unit.get("ephemeral") else types.SimpleNamespace(genotype=ind.genotype))
                            expected_at.append(e)
                        if unit.get("ephemeral"):
                            # nobody but the tracker keeps a registered individual: its address can be taken by the next one
                            flags.flags.clear()
                            inds_by_i.pop(i, None)
                            dead_ids.add(id(ind))  # (the tracker may still hold it as its best: then the address stays taken)
                            ind = None
                        boundaries.append(len(dev.writes))
                        content = (real_open(path, "rb").read() if conformance else dev.content())
                        why = check_image(content, unit, nobj, expected_rows, names, expect_extra, table, complete=True)
                        if why:
                            kind, msg = why
                            r.add_violation(Violation(PROP, "CSVSearchRecorder.register", kind,
                                                      {"nobj": min(nobj, 2), "fields": unit["fields"], "simplegp": unit["extra"] == "simplegp2"},
                                                      {"unit": unit, "sequence": list(seq), "after_registration": e},
                                                      f"objectives={nobj} fields={unit['fields']} extra={unit['extra']} only_best={unit['only_best']} "
                                                      f"history {seq[: i + 1]}{' with re-presentations' if unit.get('represent') else ''}: {msg}"))
                            ok = False
                            break
                    if conformance:
                        r.count("real_file_conformance_runs")
                        if r.counters.get("device_not_intercepted"):
                            r.count("histories")  # observed through the real file at every registration boundary
                        continue
                    r.count("histories")
                    if nobj > 1 or names or unit["text"] != "short":
                        r.nontrivial += 1
                    if not ok:
                        continue
                    # crash enumeration: every prefix of the raw write log
                    final = dev.content()
                    for k in range(len(dev.writes) + 1):
                        img = dev.image(k)
                        r.count("crash_images")
                        if not final.startswith(img):
                            r.add_violation(Violation(PROP, "CSVSearchRecorder", "crash-image-not-a-prefix", {}, {"unit": unit, "sequence": list(seq), "writes": k},
                                                      f"image after {k} raw writes is not a byte prefix of the final file"))
                            break
                        if k in boundaries:
                            nreg = boundaries.index(k) if k != boundaries[0] else 0
                            nreg = max(j for j, bnd in enumerate(boundaries) if bnd == k)
                            exp = []
                            cnt = 0
                            for ind, at in zip(expected_rows, expected_at):
                                if at < nreg:
                                    exp.append(ind)
                            why = check_image(img, unit, nobj, exp, names, expect_extra, table, complete=True)
                            if why:
                                r.add_violation(Violation(PROP, "CSVSearchRecorder.register", "boundary-image-" + why[0], {"nobj": min(nobj, 2)},
                                                          {"unit": unit, "sequence": list(seq), "writes": k},
                                                          f"history {seq}: image at registration boundary {nreg}: {why[1]}"))
                                break
                    # the recorder of this history stays open while the next history runs (two searches of one process, the
                    # first log read again afterwards): nothing a later tracker does may reach an earlier log
                    if prev_log is not None:
                        pdev, pfinal, prec, pseq = prev_log
                        r.count("earlier_logs_read_again_after_the_next_search")
                        if pdev.content() != pfinal:
                            r.add_violation(Violation(PROP, "CSVSearchRecorder", "earlier-log-changed-by-a-later-search",
                                                      {"simplegp": unit["extra"] == "simplegp2"}, {"unit": unit, "sequence": list(pseq), "next_sequence": list(seq)},
                                                      f"extra={unit['extra']}: the log of history {pseq} had {len(pfinal)} bytes when its search ended and "
                                                      f"other content after the next search (history {seq}) of the same process"))
                        prec.csv_file.close()
                    prev_log = (dev, final, rec, seq)
                finally:
                    recmod.open = real_open
        r.states = 3 ** L
        r.samples.append({"config": unit, "histories": 3 ** L})
    finally:
        recmod.__dict__.pop("open", None)
        if prev_log is not None:
            try:
                prev_log[2].csv_file.close()
            except Exception:  # noqa
                pass
        shutil.rmtree(tmp, ignore_errors=True)
    return r


def check_image(content: bytes, unit, nobj, expected_rows, extra_names, expect_extra, table, complete):
    """None if the image is header + exactly the expected complete rows with faithful columns."""
    try:
        text = content.decode("utf-8")
    except UnicodeDecodeError as e:
        return ("undecodable", str(e))
    if text and not text.endswith("\n"):
        return ("incomplete-last-row", f"file does not end with a row terminator: ...{text[-40:]!r}")
    rows = list(csv.reader(io.StringIO(text, newline="")))
    if not rows:
        return ("no-header", "empty file")
    header = rows[0]
    if unit["fields"] == "given" and unit["extra"] != "simplegp2":
        want_header = ["Id", "Text"] + [f"F{k}" for k in range(nobj)] + extra_names
        fit_cols = [f"F{k}" for k in range(nobj)]
        text_col = "Text"
    else:
        want_header = ["Execution Time", "Phenotype"] + [f"Fitness{k}" for k in range(nobj)] + extra_names
        fit_cols = [f"Fitness{k}" for k in range(nobj)]
        text_col = "Phenotype"
    if header != want_header:
        return ("header", f"header {header} != {want_header}")
    body = rows[1:]
    if len(body) != len(expected_rows):
        return ("row-count", f"{len(body)} rows for {len(expected_rows)} registrations that must be recorded")
    for row, ind in zip(body, expected_rows):
        if len(row) != len(header):
            return ("row-width", f"row has {len(row)} cells for {len(header)} columns")
        d = dict(zip(header, row))
        i = ind.genotype.i
        if unit["extra"] == "override":
            if d[text_col] != f"ov:{i}":
                return ("extra-field", f"row of individual {i}: the overriding field {text_col} = {d[text_col][:40]!r}, its callback gives 'ov:{i}'")
        elif d[text_col] != ind.genotype.text:
            return ("phenotype-column", f"row of individual {i}: {text_col} = {d[text_col][:40]!r}")
        for k, col in enumerate(fit_cols):
            want = float(table[i] + 10 * k) if nobj > 1 else float(table[i])
            try:
                got = float(d[col])
            except ValueError:
                return ("fitness-column", f"row of individual {i}: {col} = {d[col]!r}")
            if got != want:
                return ("fitness-column", f"row of individual {i}: column {col} holds {got}, component {k} is {want}")
        for name in extra_names:
            want = expect_extra[name](ind)
            if d[name] != want:
                return ("extra-field", f"row of individual {i}: extra field {name} = {d[name]!r}, its callback gives {want!r}")
    return None


def finalize(cr):
    cr.require("histories")
    cr.require("real_file_conformance_runs")
    if not cr.total.counters.get("device_not_intercepted"):
        cr.require("crash_images")
    else:
        # the recorder does not open its file through the intercepted open(): raw writes cannot be logged, the file
        # image is still checked after every registration on a real file
        cr.exhaustive = False
        cr.assumptions.append("raw device not intercepted in this run: crash images between registrations were NOT enumerated")
