"""C02 -- refinements (metahandlers) hold on every value the library produces."""
from __future__ import annotations

import itertools

from mc import grammars as G
from mc import refsem as R
from mc.explorer import ExploreStats, explore
from mc.harness import UnitResult, Violation
from checks import producers as P
from checks.common import exc_brief, exc_site, is_library_error

PROP = "C02"
TECHNIQUE = (
    "exhaustive enumeration of every random answer (E1) for each metahandler over a parameter alphabet, and of "
    "create/map/mutate/crossover (E1+E2) on grammars with refined fields; oracle = independent documented predicate "
    "with dependent refinements evaluated on actual siblings, plus generator/validator agreement"
)
RULE = (
    "(a) metahandler x parameter alphabet x all answers of the scripted source -> generate(); (b) every refined field "
    "of every program produced by the bounded exploration of C01's units on grammars containing refinements; "
    "non-trivial = value lies on a boundary of its refinement or the refinement is dependent / nested in a list or union"
)

MH_PARAMS = [
    ["IntRange", 0, 0], ["IntRange", 0, 1], ["IntRange", -2, 2], ["IntRange", 2, 2], ["IntRange", 0, 70],
    ["IntList", [1]], ["IntList", [1, 3]], ["IntList", [3, 1, 2]],
    ["FloatRange", 0.0, 1.0], ["FloatRange", 1.5, 1.5], ["FloatRange", -1.0, 1.0], ["FloatRange", 0, 1], ["FloatRange", 2, 2],
    ["FloatList", [0.5]], ["FloatList", [0.5, 1.5]],
    ["VarRange", ["x"]], ["VarRange", ["x", "y"]],
    ["LSB", 0, 0], ["LSB", 0, 2], ["LSB", 1, 2], ["LSB", 2, 2], ["LSBW", 0, 1], ["LSBW", 2, 3],
    ["SSB", 0, 1, "a"], ["SSB", 1, 2, "ab"], ["SSB", 2, 2, "a"], ["SSB", 0, 0, "ab"],
    ["WSH", [[0.5, 0.5], [1.0, 0.0]], ["a", "b"]], ["WSH", [[0.0, 1.0]], ["a", "b"]], ["WSH", [[0.2, 0.3, 0.5]], ["a", "b", "c"]],
    ["IntervalRange", 1, 2, 4], ["IntervalRange", 0, 1, 2], ["IntervalRange", 5, 10, 100], ["IntervalRange", 2, 3, 4],
]


def units(tier, seed):
    us = [{"kind": "mh", "mh": mh} for mh in MH_PARAMS]
    us += [{"kind": "mh", "mh": mh, "extended": True} for mh in MH_PARAMS if mh[0] in ("VarRange", "IntList", "FloatList")]
    fam = [s for s in G.general_family(tier)]
    us += P.standard_units(tier, fam, with_pt=False)
    return us


def boundary(mh, v) -> bool:
    k = mh[0]
    try:
        if k in ("IntRange", "FloatRange"):
            return v in (mh[1], mh[2])
        if k in ("LSB", "LSBW", "SSB"):
            return len(v) in (mh[1], mh[2])
        if k == "IntervalRange":
            return (v[1] - v[0]) in (mh[1], mh[2]) or v[1] == mh[3]
    except Exception:
        return False
    return True


def run_mh(unit) -> UnitResult:
    r = UnitResult()
    mh_spec = unit["mh"]
    base = {"IntRange": int, "IntList": int, "FloatRange": float, "FloatList": float, "VarRange": str,
            "LSB": list[int], "LSBW": list[int], "SSB": str, "WSH": str, "IntervalRange": tuple[int, int]}[mh_spec[0]]
    seen = set()

    def run(src):
        if unit.get("extended") and mh_spec[0] in ("VarRange", "IntList", "FloatList"):
            # the option list the refinement was built from grows afterwards (names that only become known later are
            # appended to the same list object): generator and validator still agree with each other
            from geneticengine.grammar.metahandlers.floats import FloatList
            from geneticengine.grammar.metahandlers.ints import IntList
            from geneticengine.grammar.metahandlers.vars import VarRange

            opts = list(mh_spec[1])
            mh = {"VarRange": VarRange, "IntList": IntList, "FloatList": FloatList}[mh_spec[0]](opts)
            opts.append({"VarRange": "zz", "IntList": 77, "FloatList": 7.5}[mh_spec[0]])
            v = mh.generate(src, None, base, lambda t, **kw: 7, {})
            return mh, v
        mh = G.make_mh(mh_spec)
        v = mh.generate(src, None, base, lambda t, **kw: 7, {})
        return mh, v

    st = ExploreStats()
    for ex in explore(run, max_execs=20000, stats=st):
        r.executions += 1
        w = {"unit": unit, "choices": list(ex.choices)}
        if ex.exc is not None:
            if not is_library_error(ex.exc):
                r.add_violation(Violation(PROP, f"{mh_spec[0]}.generate", "generate-raised",
                                          {"exc": type(ex.exc).__name__, "mh": mh_spec[0]}, w,
                                          f"{mh_spec}: {exc_brief(ex.exc)}"))
            continue
        mh, v = ex.result
        key = repr(v)
        if key not in seen:
            seen.add(key)
            if boundary(mh_spec, v):
                r.nontrivial += 1
            if len(r.samples) < 1:
                r.samples.append({"metahandler": mh_spec, "value": repr(v)})
        why = R.mh_predicate(mh_spec, v) if not unit.get("extended") else None
        if why is not None:
            r.add_violation(Violation(PROP, f"{mh_spec[0]}.generate", "predicate", {"mh": mh_spec[0]},
                                      dict(w, value=repr(v)), f"{mh_spec}: generated {v!r}: {why}"))
        try:
            ok = mh.validate(v)
        except Exception as e:  # noqa
            ok = f"raised {type(e).__name__}: {e}"
        if ok is not True and ok != True:  # noqa: E712  (numpy bools are accepted)
            r.add_violation(Violation(PROP, f"{mh_spec[0]}.validate", "validator-rejects-generated", {"mh": mh_spec[0]},
                                      dict(w, value=repr(v)), f"{mh_spec}: validate({v!r}) = {ok!r} for a generated value"))
    r.states = len(seen)
    r.abstracted = st.abstracted_points
    r.truncated = st.truncated
    return r


def oracle(ctx, ev, r, tm):
    if tm is None:
        return
    errs = R.check_value(ctx.view, ev.result, ["ref", ctx.spec["start"]], ctx.g, what=("ref",))
    errs = [e for e in errs if e[0] == "refinement" or (e[0] == "union" and "refinement" in e[2])]
    r.count("programs_checked")
    if errs:
        e = errs[0]
        is_default = False
        if len(e) > 4:
            try:
                is_default = e[4] == type(e[4])()
            except Exception:
                is_default = False
        r.add_violation(Violation(
            PROP, P.site_of(ev), "refinement", {"rep": ev.rep, "value_is_base_type_default": is_default},
            {"unit": P.clean_unit(ctx.unit), "choices": list(ev.choices), "path": e[1], "program": R.show(tm)[:300]},
            f"{ctx.spec['name']}: at {e[1]}: {e[2]}"))


def _interesting(tm) -> bool:
    return True


def run_unit(unit) -> UnitResult:
    if unit["kind"] == "mh":
        return run_mh(unit)
    r = P.drive(unit, oracle)
    r.nontrivial += r.states
    return r


def finalize(cr):
    cr.require("programs_checked")
    cr.assumptions += ["refinement parameters range over the alphabet MH_PARAMS and the generated grammar families"]
