"""C10 -- the grammar is read-only during synthesis and search."""
from __future__ import annotations

from mc import grammars as G
from mc import refsem as R
from mc.explorer import ExploreStats, explore
from mc.harness import UnitResult, Violation
from mc.snapshot import diff_snap, grammar_snapshot
from checks import producers as P
from checks.common import make_rep

PROP = "C10"
TECHNIQUE = (
    "grammar snapshot (productions, minimum depths, recursive set, weights, per-class metadata) compared after every "
    "call of the bounded exhaustive exploration (E1 create/map, E2 mutate/crossover, including failing and backtracking "
    "calls and infeasible limits); differential re-enumeration of the creatable language before/after the history, with a weight update that fails half-way in between; every history of three geml estimator fits over two data sets (shared production lists unchanged, grammar independent of earlier fits)"
)
RULE = (
    "units = C01's units over all five representations plus fault units (infeasible depth limits, exhausted stack "
    "genomes, dependent refinements that make a production infeasible); non-trivial = call that raised or backtracked"
)


def units(tier, seed):
    us = P.standard_units(tier, None)
    fam = G.general_family(tier)
    for spec in fam:
        if spec["name"].split(":")[0] in ("S6", "S7", "S8", "S17", "S1", "S10", "S11"):
            us.append({"kind": "differential", "spec": spec, "max_execs": 3000 if tier == "quick" else 30000})
    for spec in fam:
        if spec["name"].split(":")[0] in ("S1", "S8", "S10", "S17", "S11"):
            for rep in ("tree", "ge", "sge", "dsge", "stack"):
                for algo in ("gp", "hc", "rs"):
                    us.append({"kind": "search", "spec": spec, "rep": rep, "algo": algo, "depth_off": 2,
                               "max_dev": 1, "max_execs": 25 if tier == "quick" else 300})
    # the other depth-counting mode (labelling reads a per-grammar table of hidden expansions there)
    for spec in fam:
        if spec["name"].split(":")[0] in ("S2", "S7", "S8", "S9", "S11", "S26", "S27", "S30") and not spec.get("stringify"):
            for dec in ("maxdepth", "pigrow"):
                us.append({"kind": "tree-create", "spec": spec, "decider": dec, "depth_off": 1, "xd": True, "max_execs": 300 if tier == "quick" else 3000})
            us.append({"kind": "e2", "spec": spec, "rep": "tree", "depth_off": 1, "xd": True, "K": 2, "max_states": 15, "max_execs_per_op": 40})
    # an inner abstract symbol with a single production that fails in some contexts (nothing left to retry there)
    s38 = G.shape_single_production_backtrack()
    for dec in ("maxdepth", "full", "pigrow"):
        for off in (0, 1, 2):
            us.append({"kind": "tree-create", "spec": s38, "decider": dec, "depth_off": off, "max_execs": 1500 if tier == "quick" else 20000})
    us.append({"kind": "differential", "spec": s38, "max_execs": 3000 if tier == "quick" else 30000})
    for rep in ("tree", "ge", "sge", "dsge", "stack"):
        us.append({"kind": "e2", "spec": s38, "rep": rep, "depth_off": 1, "L": 3 if rep == "stack" else 2, "K": 2 if tier == "quick" else 3,
                   "max_states": 25 if tier == "quick" else 80, "max_execs_per_op": 60 if tier == "quick" else 300})
        if rep != "tree":
            us.append({"kind": "map", "spec": s38, "rep": rep, "depth_off": 1, "L": 3 if tier == "quick" else 4, "max_execs": 20 if tier == "quick" else 100})
    for est in ("regressor", "classifier"):
        us.append({"kind": "geml", "estimator": est})
    return us


def run_geml(unit) -> UnitResult:
    """The geml estimators build a grammar per fit from shared, module-level production lists: every history of two
    or three fits (data sets with different columns) leaves those lists unchanged, and each fit's grammar has exactly
    the shared productions plus its own data set's variable production."""
    import itertools

    import numpy as np

    r = UnitResult()
    from geneticengine.solutions.individual import Individual
    from geneticengine.random.sources import NativeRandomSource
    from geneticengine.representations.tree.initializations import ProgressivelyTerminalDecider
    from geneticengine.representations.tree.treebased import TreeBasedRepresentation

    if unit["estimator"] == "regressor":
        import geml.regressors as M
        import geml.grammars.symbolic_regression as SR

        base = M.GeneticEngineRegressor
        shared = lambda: [c.__name__ for c in SR.components]  # noqa
    else:
        import geml.classifiers as M

        base = M.GeneticEngineClassifier
        shared = lambda: []  # noqa -- the classifier grammar is made per data set

    class OneShot(base):  # the search itself is other properties' business: return one created individual
        def search(self):
            rep = TreeBasedRepresentation(self.grammar, ProgressivelyTerminalDecider(self.random, self.grammar))
            ind = Individual(rep.create_genotype(self.random), rep)
            self.problem.evaluate(ind.get_phenotype())
            return ind

    datasets = {
        "wide": (np.array([[1.0, 2.0, 3.0], [2.0, 1.0, 0.5], [0.0, 1.0, 4.0], [3.0, 3.0, 1.0]]), np.array([1.0, 0.0, 1.0, 0.0])),
        "narrow": (np.array([[1.0], [2.0], [0.5], [3.0]]), np.array([0.0, 1.0, 0.0, 1.0])),
    }
    for plan in itertools.product(datasets, repeat=3):
        shared0 = shared()
        w = {"unit": unit, "plan": list(plan)}
        prods_seen = []
        try:
            for k, name in enumerate(plan):
                X, y = datasets[name]
                kw = {"max_time": 1, "seed": k}
                if unit["estimator"] == "regressor":
                    kw["remove_time_overheads"] = False
                try:
                    est = OneShot(**kw)
                except TypeError:
                    est = OneShot(1, k)
                est.fit(X, y if unit["estimator"] == "regressor" else y.astype(int))
                r.executions += 1
                names = sorted(c.__name__ for c in est.grammar.all_nodes if getattr(c, "__module__", "") != "builtins")
                prods_seen.append((name, names))
                if shared() != shared0:
                    r.add_violation(Violation(PROP, f"geml.{unit['estimator']}.fit", "shared-production-list-changed", {"estimator": unit["estimator"]}, w,
                                              f"fits {plan[: k + 1]}: the module-level production list went from {len(shared0)} to {len(shared())} entries: "
                                              f"{[n for n in shared() if n not in shared0][:3]}"))
                    raise StopIteration
            # the grammar of a data set does not depend on which data sets were fitted before it
            per = {}
            for name, names in prods_seen:
                if name in per and per[name] != names:
                    r.add_violation(Violation(PROP, f"geml.{unit['estimator']}.fit", "grammar-depends-on-earlier-fits", {"estimator": unit["estimator"]}, w,
                                              f"fits {plan}: data set {name!r} got productions {names} and earlier {per[name]}"))
                    break
                per[name] = names
            r.count("geml_fit_histories")
            r.nontrivial += 1
        except StopIteration:
            break
        except Exception as e:  # noqa
            from checks.common import exc_brief

            r.add_violation(Violation(PROP, f"geml.{unit['estimator']}.fit", "raised", {"estimator": unit["estimator"], "exc": type(e).__name__}, w,
                                      f"fits {plan}: {exc_brief(e)}"))
            break
    r.states = 8
    r.samples.append({"geml": unit["estimator"]})
    return r


def run_search(unit) -> UnitResult:
    """Whole searches (initialisation, steps, mapping, evaluation) leave the grammar untouched."""
    from geneticengine.algorithms.gp.gp import GeneticProgramming
    from geneticengine.algorithms.hill_climbing import HC
    from geneticengine.algorithms.random_search import RandomSearch
    from geneticengine.evaluation.budget import EvaluationBudget
    from geneticengine.problems import SingleObjectiveProblem
    from mc.explorer import gene_domain

    r = UnitResult()
    ctx = P.open_ctx(unit)
    try:
        g = ctx.g
        if g is None:
            return r
        d = P.unit_depth(ctx)
        rep_kind = unit["rep"]
        skw = {}
        if rep_kind == "stack":
            skw = {"wide_domain": gene_domain(P.stack_alphabet(g))}
        elif rep_kind in ("ge", "sge"):
            skw = {"wide_domain": gene_domain(P.GENES)}
        elif rep_kind == "dsge":
            skw = {"wide_domain": gene_domain(P.GENES_DSGE)}
        snap0 = grammar_snapshot(g)

        def run(src):
            rep = make_rep(rep_kind, g, src, d, gene_length=6)
            problem = SingleObjectiveProblem(lambda p: float(len(repr(p)) % 5))
            if unit["algo"] == "gp":
                alg = GeneticProgramming(problem, EvaluationBudget(8), rep, random=src, population_size=4)
            elif unit["algo"] == "hc":
                alg = HC(problem, EvaluationBudget(6), rep, random=src, number_of_mutations=2)
            else:
                alg = RandomSearch(problem, EvaluationBudget(4), rep, random=src)
            n = {"c": 0}
            real = alg.is_done

            def is_done():
                n["c"] += 1
                return True if n["c"] > 12 else real()

            alg.is_done = is_done
            alg.search()

        st = ExploreStats()
        for ex in explore(run, max_dev=unit["max_dev"], max_execs=unit["max_execs"], horizon=6000, stats=st, source_kwargs=skw):
            r.executions += 1
            r.count("searches_checked")
            if ex.exc is not None:
                r.nontrivial += 1
            now = grammar_snapshot(g)
            if now != snap0:
                dd = diff_snap(snap0, now)
                r.add_violation(Violation(PROP, f"{unit['algo']}.search[{rep_kind}]", "grammar-changed", {"field": dd.split(":")[0][:40], "rep": rep_kind},
                                          {"unit": P.clean_unit(unit), "choices": list(ex.choices)},
                                          f"{ctx.spec['name']}: a {unit['algo']} search with the {rep_kind} representation changed the grammar: {dd[:300]}"))
                snap0 = now
        r.states = st.executions
        r.capped = st.capped_paths
        r.truncated = st.truncated
        r.samples.append({"grammar": ctx.spec["name"], "search": unit["algo"], "rep": rep_kind, "runs": st.executions})
    finally:
        ctx.bundle.cleanup()
    return r


def run_differential(unit) -> UnitResult:
    """reach_grow(G,d) before a history of operations == reach_grow(G,d) after it."""
    r = UnitResult()
    ctx = P.open_ctx(unit)
    try:
        g = ctx.g
        if g is None:
            return r
        d = g.get_min_tree_depth() + 1

        def reach():
            out = set()
            st = ExploreStats()

            def run(src):
                return make_rep("tree", g, src, d).create_genotype(src)

            n_fail = 0
            for ex in explore(run, max_execs=unit["max_execs"], horizon=300, stats=st):
                r.executions += 1
                if ex.exc is not None:
                    n_fail += 1
                elif not ex.capped:
                    out.add(R.term(ex.result))
            return out, n_fail, st.truncated

        snap0 = grammar_snapshot(g)
        before, nf, trunc = reach()
        r.nontrivial += nf
        # a failing operation on the grammar itself: a weight update that raises half-way (its dictionary lacks all but the
        # first production) must leave nothing behind
        try:
            first_rule = next(iter(g.alternatives))
            g.update_weights(0.5, {g.alternatives[first_rule][0]: 1.0})
            update_failed = False
        except Exception:  # noqa
            update_failed = True
            r.count("failed_weight_updates")
        # another failing operation: a node of a class that exists but was not supplied to this grammar is requested (as a
        # user-written refinement calling rec(Unlisted) would); it is refused and the grammar stays as it is
        if len(ctx.spec["prods"]) >= 2 and not ctx.spec.get("named"):
            from geneticengine.grammar.grammar import extract_grammar
            from geneticengine.representations.tree.treebased import random_node
            from mc.explorer import ExhaustiveSource as _ES

            drop = ctx.spec["prods"][-1][0]
            # (on classes of their own: production weights live on the classes, so extracting a second grammar over the
            # same classes would legitimately re-normalise what the first one reports)
            b_sub = G.build(ctx.spec)
            try:
                try:
                    g_sub = extract_grammar([c for c in b_sub.considered if c.__name__ != drop], b_sub.start)
                except Exception:  # noqa
                    g_sub = None
                if g_sub is not None and b_sub.classes[drop] not in g_sub.all_nodes:
                    sub0 = grammar_snapshot(g_sub)
                    try:
                        random_node(_ES((), strict=False), g_sub, b_sub.classes[drop],
                                    make_rep("tree", g_sub, _ES((), strict=False), g_sub.get_min_tree_depth() + 2).decider)
                        refused = False
                    except Exception:  # noqa
                        refused = True
                    r.count("requests_for_an_unsupplied_class")
                    sub1 = grammar_snapshot(g_sub)
                    if sub0 != sub1:
                        r.add_violation(Violation(PROP, "random_node-unsupplied-class", "grammar-changed",
                                                  {"field": diff_snap(sub0, sub1).split(":")[0][:40], "refused": refused},
                                                  {"unit": P.clean_unit(unit), "dropped": drop},
                                                  f"{ctx.spec['name']} without {drop}: asking for a {drop} node changed the grammar: {diff_snap(sub0, sub1)[:300]}"))
            finally:
                b_sub.cleanup()
        # the exploration above IS the history (it includes every failing / backtracking path); explore again
        if update_failed or not g.alternatives:
            after, _, trunc2 = reach()
        else:
            after, trunc2 = before, False  # the update went through (one-production grammar): the grammar changed on purpose
        r.states = len(before)
        r.count("differential_runs")
        if trunc or trunc2:
            r.truncated = True
        snap1 = grammar_snapshot(g) if (update_failed or not g.alternatives) else snap0
        w = {"unit": P.clean_unit(unit)}
        if before != after:
            lost = [R.show(t) for t in list(before - after)[:2]]
            new = [R.show(t) for t in list(after - before)[:2]]
            r.add_violation(Violation(PROP, "create_genotype-history", "creatable-language-changed",
                                      {"shrunk": bool(before - after), "grew": bool(after - before)}, w,
                                      f"{ctx.spec['name']}: after exploring every creation path once, {len(before - after)} programs "
                                      f"are no longer creatable {lost}, {len(after - before)} new {new}"))
        if snap0 != snap1:
            r.add_violation(Violation(PROP, "create_genotype-history", "grammar-changed", {"field": diff_snap(snap0, snap1).split(":")[0][:40]}, w,
                                      f"{ctx.spec['name']}: {diff_snap(snap0, snap1)[:300]}"))
        r.samples.append({"grammar": ctx.spec["name"], "depth": d, "creatable": len(before), "failing_paths": nf})
    finally:
        ctx.bundle.cleanup()
    return r


def run_unit(unit) -> UnitResult:
    if unit["kind"] == "geml":
        return run_geml(unit)
    if unit["kind"] == "differential":
        return run_differential(unit)
    if unit["kind"] == "search":
        return run_search(unit)
    state = {"n": 0}

    def check_now(ctx, ev, r):
        now = grammar_snapshot(ctx.g)
        if now != state["snap0"]:
            d = diff_snap(state["snap0"], now)
            r.add_violation(Violation(PROP, P.site_of(ev), "grammar-changed", {"field": d.split(":")[0][:40], "rep": ev.rep},
                                      {"unit": P.clean_unit(ctx.unit), "choices": list(ev.choices)},
                                      f"{ctx.spec['name']}: after {ev.op}: {d[:300]}"))
            state["snap0"] = now

    def oracle(ctx, ev, r, tm):
        if "snap0" not in state:
            # baseline = the grammar as extracted from fresh identical classes on which nothing ever ran
            b2 = G.build(ctx.spec)
            try:
                state["snap0"] = grammar_snapshot(b2.extract(bool(unit.get("xd", False))))
            finally:
                b2.cleanup()
            state["ctx"] = ctx
        state["last"] = ev
        state["n"] += 1
        r.count("calls_checked")
        if tm is None:
            r.nontrivial += 1
        # a change to the grammar persists, so it is enough to look after every failing call, every 64th call
        # and once at the end of the unit (below)
        if tm is None or state["n"] % 64 == 0 or state["n"] <= 2:
            check_now(ctx, ev, r)

    from mc.explorer import HarnessError

    try:
        r = P.drive(unit, oracle)
    except HarnessError as e:
        if "replay divergence" not in str(e):
            raise
        # identical calls (same grammar object, same random answers) took different paths: some state
        # outside the call changed -- on a grammar that nothing else touches, that state is the grammar
        r = UnitResult()
        r.executions = 1
        r.add_violation(Violation(PROP, f"{unit.get('rep', 'tree')}.{unit['kind']}", "identical-calls-diverge", {"rep": unit.get("rep", "tree")},
                                  {"unit": P.clean_unit(unit)},
                                  f"{unit['spec']['name']}: replaying the same random answers on the same grammar took a different path ({e}): "
                                  f"state shared between calls changed"))
        return r
    if "last" in state:
        check_now(state["ctx"], state["last"], r)
    return r


def finalize(cr):
    cr.require("calls_checked")
    cr.require("differential_runs")
    cr.require("searches_checked")
    cr.assumptions += ["the baseline snapshot is taken from a fresh extraction of identical classes (class names are compared, not identities)"]
