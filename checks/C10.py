"""C10 -- the grammar is read-only during synthesis and search."""
from __future__ import annotations

from mc import grammars as G
from mc import refsem as R
from mc.explorer import ExploreStats, explore
from mc.harness import UnitResult, Violation
from mc.snapshot import diff_snap, grammar_snapshot
from checks import producers as P
from checks.common import make_rep

PROP = "C10"
TECHNIQUE = (
    "grammar snapshot (productions, minimum depths, recursive set, weights, per-class metadata) compared after every "
    "call of the bounded exhaustive exploration (E1 create/map, E2 mutate/crossover, including failing and backtracking "
    "calls and infeasible limits); differential re-enumeration of the creatable language before/after the history"
)
RULE = (
    "units = C01's units over all five representations plus fault units (infeasible depth limits, exhausted stack "
    "genomes, dependent refinements that make a production infeasible); non-trivial = call that raised or backtracked"
)


def units(tier, seed):
    us = P.standard_units(tier, None)
    fam = G.general_family(tier)
    for spec in fam:
        if spec["name"].split(":")[0] in ("S6", "S7", "S8", "S17", "S1", "S10", "S11"):
            us.append({"kind": "differential", "spec": spec, "max_execs": 3000 if tier == "quick" else 30000})
    return us


def run_differential(unit) -> UnitResult:
    """reach_grow(G,d) before a history of operations == reach_grow(G,d) after it."""
    r = UnitResult()
    ctx = P.open_ctx(unit)
    try:
        g = ctx.g
        if g is None:
            return r
        d = g.get_min_tree_depth() + 1

        def reach():
            out = set()
            st = ExploreStats()

            def run(src):
                return make_rep("tree", g, src, d).create_genotype(src)

            n_fail = 0
            for ex in explore(run, max_execs=unit["max_execs"], horizon=300, stats=st):
                r.executions += 1
                if ex.exc is not None:
                    n_fail += 1
                elif not ex.capped:
                    out.add(R.term(ex.result))
            return out, n_fail, st.truncated

        snap0 = grammar_snapshot(g)
        before, nf, trunc = reach()
        r.nontrivial += nf
        # the exploration above IS the history (it includes every failing / backtracking path); explore again
        after, _, trunc2 = reach()
        r.states = len(before)
        r.count("differential_runs")
        if trunc or trunc2:
            r.truncated = True
        snap1 = grammar_snapshot(g)
        w = {"unit": P.clean_unit(unit)}
        if before != after:
            lost = [R.show(t) for t in list(before - after)[:2]]
            new = [R.show(t) for t in list(after - before)[:2]]
            r.add_violation(Violation(PROP, "create_genotype-history", "creatable-language-changed",
                                      {"shrunk": bool(before - after), "grew": bool(after - before)}, w,
                                      f"{ctx.spec['name']}: after exploring every creation path once, {len(before - after)} programs "
                                      f"are no longer creatable {lost}, {len(after - before)} new {new}"))
        if snap0 != snap1:
            r.add_violation(Violation(PROP, "create_genotype-history", "grammar-changed", {"field": diff_snap(snap0, snap1).split(":")[0][:40]}, w,
                                      f"{ctx.spec['name']}: {diff_snap(snap0, snap1)[:300]}"))
        r.samples.append({"grammar": ctx.spec["name"], "depth": d, "creatable": len(before), "failing_paths": nf})
    finally:
        ctx.bundle.cleanup()
    return r


def run_unit(unit) -> UnitResult:
    if unit["kind"] == "differential":
        return run_differential(unit)
    state = {}

    def oracle(ctx, ev, r, tm):
        if "snap" not in state:
            # the snapshot taken at open_ctx time would be better; producers build the grammar before the
            # first event, and extract_grammar is the only writer allowed
            state["snap"] = state.get("snap0")
        if tm is None:
            r.nontrivial += 1
        r.count("calls_checked")
        if r.counters["calls_checked"] % state["every"] and tm is not None:
            return
        now = grammar_snapshot(ctx.g)
        if now != state["snap0"]:
            d = diff_snap(state["snap0"], now)
            r.add_violation(Violation(PROP, P.site_of(ev), "grammar-changed", {"field": d.split(":")[0][:40], "rep": ev.rep},
                                      {"unit": P.clean_unit(ctx.unit), "choices": list(ev.choices)},
                                      f"{ctx.spec['name']}: after {ev.op}: {d[:300]}"))
            state["snap0"] = now

    # open the context here to snapshot the grammar before any call
    ctx0 = P.open_ctx(unit)
    try:
        if ctx0.g is None:
            return UnitResult()
        state["snap0"] = grammar_snapshot(ctx0.g)
    finally:
        pass
    state["every"] = 1 if unit["kind"] != "map" else 1
    # drive() re-opens a context (fresh classes): snapshot that one lazily at the first event instead
    ctx0.bundle.cleanup()
    first = {}

    def oracle2(ctx, ev, r, tm):
        if "done" not in first:
            first["done"] = True
            # baseline = grammar as extracted, re-extracted from fresh identical classes (nothing ran on it)
            b2 = G.build(ctx.spec)
            try:
                state["snap0"] = grammar_snapshot(b2.extract(bool(unit.get("xd", False))))
            finally:
                b2.cleanup()
        oracle(ctx, ev, r, tm)

    return P.drive(unit, oracle2)


def finalize(cr):
    cr.require("calls_checked")
    cr.require("differential_runs")
    cr.assumptions += ["the baseline snapshot is taken from a fresh extraction of identical classes (class names are compared, not identities)"]
