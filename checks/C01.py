"""C01 -- every program the library produces is well-typed for its grammar."""
from __future__ import annotations

from mc import grammars as G
from mc import refsem as R
from mc.harness import UnitResult, Violation
from checks import producers as P
from checks.common import exc_brief, exc_site, is_library_error

PROP = "C01"
TECHNIQUE = (
    "exhaustive choice-tree exploration (E1) of create/map under a scripted RandomSource, all genotypes over a "
    "gene alphabet, and explicit-state search (E2) over create/mutate/crossover, run on the real code; "
    "oracle = independent structural well-typedness against the grammar spec; CooperativeGP over pairs of grammars (each position of the scoring function receives programs of its own grammar); stack genomes from explicit-state search of the stack machine"
)
RULE = (
    "work unit = grammar spec x representation x decider x depth; every answer of every random draw (full range "
    "below 64 values, landmark alphabet above) / every genotype over {0,1,2,3,maxsize}^L / every state reached by "
    "<=K mutate/crossover steps; a case is non-trivial when the produced program contains at least one nested "
    "grammar node, list, tuple or union field; distinct = distinct canonical program terms per unit"
)

SITE = {
    ("tree", "create"): "TreeBasedRepresentation.create_genotype",
    ("tree", "mutate"): "TreeBasedRepresentation.mutate",
    ("tree", "crossover"): "TreeBasedRepresentation.crossover",
}


def site_of(ev) -> str:
    if (ev.rep, ev.op) in SITE:
        return SITE[(ev.rep, ev.op)]
    if ev.op == "map" or ev.extra.get("mapped"):
        return f"{ev.rep}.genotype_to_phenotype"
    return f"{ev.rep}.{ev.op}"


def units(tier, seed):
    fam = G.general_family(tier)
    us = []
    for spec in fam:
        for dec in (("maxdepth", "full", "pigrow") if not spec.get("stringify") else ("maxdepth",)):
            for off in (0, 1) if tier == "quick" else (0, 1, 2):
                us.append({"kind": "tree-create", "spec": spec, "decider": dec, "depth_off": off,
                           "max_execs": 1500 if tier == "quick" else 20000})
        if not spec.get("stringify"):
            us.append({"kind": "tree-create", "spec": spec, "decider": "pt", "depth_off": 0, "horizon": 40,
                       "max_execs": 400 if tier == "quick" else 5000})
    small = [s for s in fam if s["name"].split(":")[0] in
             ("S1", "S2", "S3", "S5", "S6", "S7", "S8", "S9", "S10", "S11", "S12", "S13", "S14", "S15", "S16", "S17", "S18", "S19", "S20", "S21", "S22", "S23", "S24", "S26", "S27", "S28", "S29", "S30", "S31", "S32", "S33", "S34", "S35", "S36", "S37")]
    small += [s for s in fam if s["name"].startswith(("F1:", "G1:")) and s["name"].count(",") == 0]
    if tier != "quick":
        small += [s for s in fam if s["name"].startswith(("F2:", "F3:", "G3:"))]
    for spec in small:
        for rep in ("ge", "sge", "dsge", "stack"):
            us.append({"kind": "map", "spec": spec, "rep": rep, "depth_off": 1, "L": 3 if tier == "quick" else 4,
                       "max_execs": 20 if tier == "quick" else 100})
        for rep in ("tree", "ge", "sge", "dsge", "stack"):
            if spec.get("stringify") and rep not in ("tree", "stack"):
                continue
            us.append({"kind": "e2", "spec": spec, "rep": rep, "depth_off": 1, "L": 3 if rep == "stack" else 2, "K": 2 if tier == "quick" else 3,
                       "max_states": 25 if tier == "quick" else 80,
                       "max_execs_per_op": 60 if tier == "quick" else 300})
    us += search_units(tier)
    shapes = {s["name"].split(":")[0]: s for s in G.family_shapes()}
    for a, b in (("S1", "S2"), ("S5", "S1"), ("S2", "S9"), ("S12", "S5")):
        for rep in ("tree",):  # CooperativeGP re-injects phenotypes, which only the tree representation accepts
            us.append({"kind": "coop", "spec": shapes[a], "spec2": shapes[b], "rep": rep, "max_dev": 1, "max_execs": 40 if tier == "quick" else 400})
        # everything the constructor documents as optional left out (default representations, default random source)
        us.append({"kind": "coop", "spec": shapes[a], "spec2": shapes[b], "rep": "defaults", "max_dev": 0, "max_execs": 1})
    us += [u for u in P.standard_units(tier, [], with_pt=False) if u.get("reannotate")]
    return us


def search_units(tier):
    fam = G.general_family("quick")
    sel = [s for s in fam if s["name"].split(":")[0] in ("S1", "S5", "S9", "S11", "S12", "S15")]
    us = []
    for spec in sel:
        for rep in ("tree", "ge", "sge", "dsge", "stack"):
            for algo in ("gp", "hc"):
                us.append({"kind": "search", "spec": spec, "rep": rep, "algo": algo, "depth_off": 2,
                           "max_dev": 1, "max_execs": 40 if tier == "quick" else 400})
    return us


def run_search(unit) -> UnitResult:
    """What the user's fitness function receives during short real searches."""
    from geneticengine.algorithms.gp.gp import GeneticProgramming
    from geneticengine.algorithms.hill_climbing import HC
    from geneticengine.evaluation.budget import EvaluationBudget
    from geneticengine.problems import SingleObjectiveProblem
    from mc.explorer import ExploreStats, explore, gene_domain
    from checks.common import make_rep

    r = UnitResult()
    ctx = P.open_ctx(unit)
    try:
        if ctx.g is None:
            return r
        d = P.unit_depth(ctx)
        rep_kind = unit["rep"]
        skw = {}
        if rep_kind == "stack":
            skw = {"wide_domain": gene_domain(P.stack_alphabet(ctx.g))}
        elif rep_kind in ("ge", "sge"):
            skw = {"wide_domain": gene_domain(P.GENES)}
        elif rep_kind == "dsge":
            skw = {"wide_domain": gene_domain(P.GENES_DSGE)}
        start_t = ["ref", ctx.spec["start"]]

        def run(src):
            got = []

            def ff(p):
                got.append(p)
                return float(len(repr(p)) % 5)

            rep = make_rep(rep_kind, ctx.g, src, d, gene_length=6)
            problem = SingleObjectiveProblem(ff)
            if unit["algo"] == "gp":
                alg = GeneticProgramming(problem, EvaluationBudget(8), rep, random=src, population_size=4)
            else:
                alg = HC(problem, EvaluationBudget(6), rep, random=src, number_of_mutations=2)
            checks = {"n": 0}
            real = alg.is_done

            def is_done():
                checks["n"] += 1
                if checks["n"] > 12:
                    return True
                return real()

            alg.is_done = is_done
            try:
                alg.search()
            finally:
                run.got = got
            return got

        st = ExploreStats()
        seen = set()
        for ex in explore(run, max_dev=unit["max_dev"], max_execs=unit["max_execs"], horizon=6000, stats=st, source_kwargs=skw):
            r.executions += 1
            progs = getattr(run, "got", [])
            if ex.exc is not None and not is_library_error(ex.exc):
                r.add_violation(Violation(PROP, f"{unit['algo']}.search[{rep_kind}]", "foreign-exception",
                                          {"exc": type(ex.exc).__name__, "at": exc_site(ex.exc), "rep": rep_kind},
                                          {"unit": _clean(unit), "choices": list(ex.choices)}, f"{ctx.spec['name']}: {exc_brief(ex.exc)}"))
            for p in progs:
                r.count("fitness_function_arguments_checked")
                errs = R.check_value(ctx.view, p, start_t, ctx.g, what=("type",))
                tm = R.term(p)
                if tm not in seen:
                    seen.add(tm)
                    if nontrivial(tm):
                        r.nontrivial += 1
                if errs:
                    e = errs[0]
                    r.add_violation(Violation(PROP, f"{unit['algo']}.search[{rep_kind}]", "fitness-function-got-ill-typed:" + e[0],
                                              {"decl": e[3], "rep": rep_kind},
                                              {"unit": _clean(unit), "choices": list(ex.choices), "program": R.show(tm)[:300]},
                                              f"{ctx.spec['name']}: fitness function received {R.show(tm)[:120]}: at {e[1]}: {e[2]}"))
        r.states = len(seen)
        r.capped = st.capped_paths
        r.truncated = st.truncated
        if seen and len(r.samples) < 1:
            r.samples.append({"grammar": ctx.spec["name"], "search": unit["algo"], "rep": rep_kind, "program": R.show(next(iter(seen)))[:120]})
    finally:
        ctx.bundle.cleanup()
    return r


def nontrivial(t) -> bool:
    if not isinstance(t, tuple):
        return False
    for x in t[1:]:
        if isinstance(x, tuple) and x[0] not in ("int", "bool", "float", "str"):
            return True
    return False


def run_coop(unit) -> UnitResult:
    """CooperativeGP: two species over two grammars with different start symbols; what the scoring function receives in
    each position, and what search() returns, is well-typed for the grammar of that position."""
    from geneticengine.algorithms.gp.cooperativegp import CooperativeGP
    from geneticengine.evaluation.budget import EvaluationBudget
    from mc.explorer import ExploreStats, explore, gene_domain
    from checks.common import make_rep

    r = UnitResult()
    P.patch_stack_horizon()
    b1, b2 = G.build(unit["spec"]), G.build(unit["spec2"])
    try:
        g1, g2 = b1.extract(), b2.extract()
        v1, v2 = R.SpecView(unit["spec"]), R.SpecView(unit["spec2"])
        t1, t2 = ["ref", unit["spec"]["start"]], ["ref", unit["spec2"]["start"]]
        rep_kind = unit["rep"]
        skw = {"wide_domain": gene_domain(P.GENES)} if rep_kind == "ge" else {}

        def run(src):
            got = []

            def score(x, y):
                got.append((x, y))
                return float((len(repr(x)) * 3 + len(repr(y))) % 5)

            d1, d2 = g1.get_min_tree_depth() + 1, g2.get_min_tree_depth() + 1
            if rep_kind == "defaults":
                coop = CooperativeGP(g1, g2, score, population1_size=2, population2_size=3, coevolutions=2,
                                     kwargs1={"budget": EvaluationBudget(3)}, kwargs2={"budget": EvaluationBudget(4)})
                run.got = got
                return coop.search()
            coop = CooperativeGP(g1, g2, score, representation1=make_rep(rep_kind, g1, src, d1, gene_length=5),
                                 representation2=make_rep(rep_kind, g2, src, d2, gene_length=5),
                                 population1_size=2, population2_size=3, coevolutions=2, random=src,
                                 kwargs1={"budget": EvaluationBudget(3)}, kwargs2={"budget": EvaluationBudget(4)})
            run.got = got
            return coop.search()

        st = ExploreStats()
        for ex in explore(run, max_dev=unit["max_dev"], max_execs=unit["max_execs"], horizon=8000, stats=st, source_kwargs=skw):
            r.executions += 1
            w = {"unit": _clean(unit), "choices": list(ex.choices)}
            if ex.capped:
                continue
            if ex.exc is not None:
                if not is_library_error(ex.exc):
                    r.add_violation(Violation(PROP, f"CooperativeGP.search[{rep_kind}]", "foreign-exception",
                                              {"exc": type(ex.exc).__name__, "at": exc_site(ex.exc), "rep": rep_kind}, w,
                                              f"{unit['spec']['name']} x {unit['spec2']['name']}: {exc_brief(ex.exc)}"))
                continue
            pairs = list(getattr(run, "got", [])) + [tuple(ex.result)]
            bad = None
            for x, y in pairs:
                r.count("fitness_function_arguments_checked", 2)
                e1 = R.check_value(v1, x, t1, g1, what=("type",))
                e2 = R.check_value(v2, y, t2, g2, what=("type",))
                if e1 or e2:
                    bad = (1, e1[0], x) if e1 else (2, e2[0], y)
                    break
            r.count("cooperative_runs")
            r.nontrivial += 1
            if bad:
                pos, e, v = bad
                r.add_violation(Violation(PROP, f"CooperativeGP.search[{rep_kind}]", "species-got-ill-typed:" + e[0], {"position": pos, "rep": rep_kind},
                                          dict(w, program=R.show(R.term(v))[:200]),
                                          f"{unit['spec']['name']} x {unit['spec2']['name']}: the program in position {pos} is not a program of grammar {pos}: "
                                          f"at {e[1]}: {e[2]}"))
        r.states = st.executions
        r.truncated = st.truncated
        r.samples.append({"cooperative": [unit["spec"]["name"], unit["spec2"]["name"]], "rep": rep_kind, "runs": st.executions})
    finally:
        b1.cleanup()
        b2.cleanup()
    return r


def run_unit(unit) -> UnitResult:
    if unit["kind"] == "search":
        return run_search(unit)
    if unit["kind"] == "coop":
        return run_coop(unit)
    r = UnitResult()
    ctx = P.open_ctx(unit)
    try:
        if ctx.g is None:
            r.count("extract_failed")
            return r
        seen = set()
        start_t = ["ref", ctx.spec["start"]]
        for ev in P.produce(ctx):
            r.executions += 1
            site = site_of(ev)
            base_w = {"unit": _clean(unit), "choices": list(ev.choices), "op": ev.op}
            if ev.exc is not None:
                if is_library_error(ev.exc):
                    r.count("library_errors")
                    continue
                r.add_violation(Violation(
                    PROP, site, "foreign-exception",
                    {"exc": type(ev.exc).__name__, "at": exc_site(ev.exc), "rep": ev.rep},
                    base_w, f"{ctx.spec['name']}: {exc_brief(ev.exc)}"))
                continue
            errs = R.check_value(ctx.view, ev.result, start_t, ctx.g, what=("type",))
            tm = R.term(ev.result)
            r.count(f"programs[{ev.rep}/{ev.op}]")
            if tm not in seen:
                seen.add(tm)
                if nontrivial(tm):
                    r.nontrivial += 1
                if len(r.samples) < 2:
                    r.samples.append({"grammar": ctx.spec["name"], "unit": unit["kind"], "rep": ev.rep, "program": R.show(tm)[:200]})
            if errs:
                e = errs[0]
                try:
                    is_default = len(e) > 4 and e[4] == type(e[4])()
                except Exception:
                    is_default = False
                r.add_violation(Violation(
                    PROP, site, "ill-typed:" + e[0], {"decl": e[3], "rep": ev.rep, "value_is_base_type_default": bool(is_default)},
                    dict(base_w, path=e[1], program=R.show(tm)[:300]), f"{ctx.spec['name']}: at {e[1]}: {e[2]}"))
        r.states += len(seen)
        r.capped += ctx.stats.capped_paths
        r.abstracted += ctx.stats.abstracted_points
        r.truncated = ctx.stats.truncated
        if ctx.stats.truncated:
            r.count("units_truncated_by_exec_cap")
    finally:
        ctx.bundle.cleanup()
    return r


def _clean(unit):
    return {k: v for k, v in unit.items() if not k.startswith("_")}


def finalize(cr):
    for rep in ("tree", "ge", "sge", "dsge", "stack"):
        cr.require(f"programs[{rep}/map]" if rep != "tree" else "programs[tree/create]")
    for rep in ("tree", "ge", "sge", "dsge", "stack"):
        cr.require(f"programs[{rep}/mutate]")
        cr.require(f"programs[{rep}/crossover]")
    cr.require("fitness_function_arguments_checked")
    cr.assumptions += [
        "grammars range over the generated families of mc/grammars.py (about 100 quick / 600 thorough specs)",
        "wide integer draws (genes, unbounded ints) are answered from a landmark alphabet",
    ]
