"""C08 -- same seed, same search: reproducible within and across processes."""
from __future__ import annotations

import hashlib
import itertools
import json
import os
import subprocess
import sys

HERE = os.path.dirname(os.path.dirname(os.path.abspath(__file__)))
if HERE not in sys.path:
    sys.path.insert(0, HERE)
if os.environ.get("VERIF_REPO") and os.path.realpath(os.environ["VERIF_REPO"]) not in sys.path:
    sys.path.insert(0, os.path.realpath(os.environ["VERIF_REPO"]))

PROP = "C08"
TECHNIQUE = (
    "environment enumeration: each configuration (algorithm x representation x grammar x seed) is run (a) twice in one "
    "process, (b) in-process under EVERY iteration order of the grammar's symbol set, dictated through a metaclass whose "
    "__hash__ the harness controls (k! orders), (c) in separate processes over PYTHONHASHSEED x heap padding x import "
    "order; the trace of programs handed to the fitness function, the best program and its fitness must be identical"
)
RULE = (
    "case = configuration x environment; states = distinct traces observed (must be 1 per configuration); non-trivial = "
    "environment pair in which the iteration order of Grammar.all_nodes actually differed"
)

ALGOS = ["gp", "gpx", "rs", "hc", "1+1"]  # gpx = GP whose step always crosses over and mutates
REPS = ["tree", "ge", "sge", "dsge", "stack"]


def grammar_specs():
    from mc import grammars as G

    two = {"name": "X2", "abstract": [], "prods": [["X", None, None, [["a", ["ann", "int", ["IntRange", 0, 9]]], ["b", "bool"]]]], "start": "X"}
    shapes = {s["name"].split(":")[0]: s for s in G.family_shapes()}
    e = dict(shapes["S1"])
    w = dict(shapes["S10"])
    s = {"name": "STR", "abstract": [["A", None, "ABC"]],
         "prods": [["L", "A", None, [["s", "str"], ["f", "float"]]], ["P", "A", None, [["x", ["ref", "A"]], ["i", "int"]]],
                   ["Q", "A", None, [["xs", ["list", ["ref", "A"]]]]]], "start": "A"}
    chain = {"name": "CHAIN", "abstract": [["E", None, "ABC"], ["T", None, "ABC"], ["F", None, "ABC"], ["At", None, "ABC"]],
             "prods": [["ET", "E", None, [["t", ["ref", "T"]]]], ["Add", "E", None, [["l", ["ref", "E"]], ["r", ["ref", "T"]]]],
                       ["TF", "T", None, [["f", ["ref", "F"]]]], ["Mul", "T", None, [["l", ["ref", "T"]], ["r", ["ref", "F"]]]],
                       ["FA", "F", None, [["a", ["ref", "At"]]]], ["Neg", "F", None, [["f", ["ref", "F"]]]],
                       ["Num", "At", None, [["v", ["ann", "int", ["IntRange", 0, 9]]]]], ["Par", "At", None, [["e", ["ref", "E"]]]]],
             "start": "E"}
    chain5 = {"name": "CHAIN5", "abstract": [["E", None, "ABC"], ["T", None, "ABC"]],
              "prods": [["ET", "E", None, [["t", ["ref", "T"]]]], ["TE", "T", None, [["e", ["ref", "E"]]]],
                        ["Num", "T", None, [["v", ["ann", "int", ["IntRange", 0, 9]]]]]], "start": "E"}
    return [two, e, w, s, chain, chain5, dict(shapes["S5"])]  # S5: concrete (recursive) start symbol


def configs(tier, seed):
    out = []
    seeds = sorted({0, 1, seed})
    for gi, spec in enumerate(grammar_specs()):
        if spec["name"].startswith("S5"):
            # only the decider / object-reuse configurations on this one
            for dec in ("pigrow", "full", "maxdepth"):
                for rep in ("ge", "sge", "tree"):
                    out.append({"g": gi, "rep": rep, "algo": "gpx", "seed": seeds[0], "decider": dec, "shared_rep": rep != "tree"})
            continue
        for rep in REPS:
            for algo in ALGOS:
                for sd in seeds if tier != "quick" else seeds[:2]:
                    if tier == "quick" and algo in ("rs", "1+1") and sd != seeds[0]:
                        continue
                    out.append({"g": gi, "rep": rep, "algo": algo, "seed": sd})
        for init in ("grow", "full", "pigrow", "ramped"):
            out.append({"g": gi, "rep": "tree", "algo": "gp", "seed": seeds[0], "init": init})
        for dec in ("pigrow", "full"):
            for rep in ("tree", "ge"):
                out.append({"g": gi, "rep": rep, "algo": "gpx", "seed": seeds[0], "decider": dec, "shared_rep": rep == "ge"})
        out.append({"g": gi, "rep": "tree", "algo": "gp", "seed": seeds[0], "user_tracker": True})
        out.append({"g": gi, "rep": "ge", "algo": "hc", "seed": seeds[0], "user_tracker": True})
    return out


def run_config(cfg, hash_order=None, want_trace=False, shared=None):
    """Runs one seeded search; returns (digest, trace, all_nodes order)."""
    from geneticengine.algorithms.gp.gp import GeneticProgramming
    from geneticengine.algorithms.hill_climbing import HC
    from geneticengine.algorithms.one_plus_one import OnePlusOne
    from geneticengine.algorithms.random_search import RandomSearch
    from geneticengine.evaluation.budget import EvaluationBudget
    from geneticengine.problems import SingleObjectiveProblem
    from geneticengine.random.sources import NativeRandomSource
    from mc import grammars as G
    from checks.common import make_rep

    from checks.producers import patch_stack_horizon
    from mc.explorer import HorizonExceeded

    patch_stack_horizon(5000)
    spec = cfg.get("_spec") or grammar_specs()[cfg["g"]]
    G._counter = itertools.count(1000 + cfg["g"])  # same module name in every environment
    if shared is not None and "bundle" in shared:
        b = shared["bundle"]
    else:
        b = G.build(spec, hash_order=hash_order)
        if shared is not None:
            shared["bundle"] = b
    try:
        g = shared["grammar"] if (shared is not None and "grammar" in shared) else b.extract()
        if shared is not None:
            shared["grammar"] = g
        if cfg.get("_update_weights") and not (shared or {}).get("weights_updated"):
            # a (successful) weight update on the grammar object before the search
            g.update_weights(0.7, {n: (1.0 if k % 2 else 0.2) for k, n in enumerate(sorted(g.all_nodes, key=lambda t: t.__name__))})
            if shared is not None:
                shared["weights_updated"] = True
        r = NativeRandomSource(cfg["seed"])
        depth = 8 if spec["name"].startswith("CHAIN") else 4
        if shared is not None and shared.get("rep") is not None:
            rep = shared["rep"]  # one genotype-backed representation object serving two searches in a row
        else:
            rep = make_rep(cfg["rep"], g, r, depth, gene_length=24, decider=cfg.get("decider", "maxdepth"))
            if shared is not None and cfg.get("shared_rep"):
                shared["rep"] = rep
        trace = []

        def ff(p):
            s = repr(p)
            trace.append(s)
            return float(len(s) % 7)

        problem = SingleObjectiveProblem(ff)
        budget = EvaluationBudget(cfg.get("budget", 24))
        algo = cfg["algo"]
        kw = {}
        if cfg.get("user_tracker"):
            # a tracker built by the user the short way (no explicit evaluator), as the estimators in geml do
            from geneticengine.evaluation.tracker import SingleObjectiveProgressTracker

            kw["tracker"] = SingleObjectiveProgressTracker(problem)
        try:
            if algo == "gp" and cfg.get("init"):
                from geneticengine.representations.tree.operators import (
                    FullInitializer, GrowInitializer, PositionIndependentGrowInitializer, RampedHalfAndHalfInitializer,
                )

                init = None
                if shared is not None:
                    init = shared.get("init")  # one initialiser object serving two searches in a row
                if init is None:
                    init = {"grow": lambda: GrowInitializer(), "full": lambda: FullInitializer(4),
                            "pigrow": lambda: PositionIndependentGrowInitializer(4), "ramped": lambda: RampedHalfAndHalfInitializer(4)}[cfg["init"]]()
                    if shared is not None:
                        shared["init"] = init
                alg = GeneticProgramming(problem, budget, rep, random=r, population_size=6, population_initializer=init, **kw)
            elif algo == "gp":
                alg = GeneticProgramming(problem, budget, rep, random=r, population_size=6, **kw)
            elif algo == "gpx":
                from geneticengine.algorithms.gp.operators.combinators import SequenceStep
                from geneticengine.algorithms.gp.operators.crossover import GenericCrossoverStep
                from geneticengine.algorithms.gp.operators.mutation import GenericMutationStep
                from geneticengine.algorithms.gp.operators.selection import TournamentSelection

                alg = GeneticProgramming(problem, budget, rep, random=r, population_size=6,
                                         step=SequenceStep(TournamentSelection(3), GenericCrossoverStep(1), GenericMutationStep(1)), **kw)
            elif algo == "rs":
                alg = RandomSearch(problem, budget, rep, random=r)
            elif algo == "hc":
                alg = HC(problem, budget, rep, random=r, number_of_mutations=3, **kw)
            else:
                alg = OnePlusOne(problem, budget, rep, random=r)
            checks = {"n": 0}
            real_is_done = alg.is_done

            class Horizon(BaseException):
                pass

            def is_done():
                checks["n"] += 1
                if checks["n"] > 200:
                    raise Horizon()
                return real_is_done()

            alg.is_done = is_done
            try:
                best = alg.search()
            except (Horizon, HorizonExceeded):
                trace.append("HORIZON")
                best = None
            if best is None:
                raise RuntimeError("no result within the horizon")
            trace.append("BEST " + repr(best.get_phenotype()) + " " + repr(best.get_fitness(problem).fitness_components))
        except Exception as e:  # noqa -- a failing search must fail identically everywhere
            trace.append("EXC " + type(e).__name__)
        order = [c.__name__ for c in g.all_nodes]
        h = hashlib.sha1("\n".join(trace).encode()).hexdigest()
        return h, (trace if want_trace else None), order
    finally:
        if shared is None:
            b.cleanup()


def worker_main(argv):
    opts = json.loads(argv[0])
    pad = opts.get("pad", "none")
    keep = []
    if pad == "objects":
        keep = [object() for _ in range(10000)] + [[i] for i in range(5000)]
    elif pad == "classes":
        keep = [type(f"Dummy{i}", (), {"x": i}) for i in range(50)] + [bytearray(1000 + i) for i in range(200)]
    if opts.get("order") == "numpy-first":
        import numpy  # noqa
        import geml.simplegp  # noqa
    import mc  # noqa

    mc.assert_repo_under_test()
    out = {}
    for i, cfg in enumerate(opts["configs"]):
        h, tr, order = run_config(cfg, want_trace=opts.get("trace", False))
        out[str(i)] = {"h": h, "order": order, "trace": tr}
    sys.stdout.write("RESULT " + json.dumps(out) + "\n")
    return 0


def units(tier, seed):
    cfgs = configs(tier, seed)
    us = []
    envs = []
    for hs in ("0", "1", "2", "random"):
        for pad in ("none", "objects", "classes"):
            for order in ("ge-first", "numpy-first"):
                envs.append({"hashseed": hs, "pad": pad, "order": order})
    if tier == "quick":
        envs = [e for e in envs if (e["hashseed"], e["pad"], e["order"]) in
                {("0", "none", "ge-first"), ("1", "objects", "numpy-first"), ("2", "classes", "ge-first"), ("random", "objects", "ge-first"),
                 ("random", "classes", "numpy-first"), ("1", "none", "numpy-first")}]
    us.append({"kind": "processes", "envs": envs, "configs": cfgs})
    for cfg in cfgs:
        if cfg["algo"] in ("gp", "gpx", "hc") and cfg["seed"] == cfgs[0]["seed"]:
            us.append({"kind": "orders", "config": cfg, "max_perms": 24 if tier == "quick" else 120})
    for cfg in cfgs:
        us.append({"kind": "twice", "config": cfg})
    # a search, then a refinement is re-declared the documented way and the grammar extracted again, then the same seeded
    # search: identical to that search run on classes that were declared with the new refinement from the start
    for cls_name, field, new_t in (("Var", "n", ["ann", "str", ["VarRange", ["z", "w", "u"]]]), ("Lit", "v", ["ann", "int", ["IntRange", 5, 7]])):
        for rep in ("tree", "ge", "dsge"):
            for algo in ("gp", "hc", "rs"):
                us.append({"kind": "reannotated", "config": {"g": 1, "rep": rep, "algo": algo, "seed": cfgs[0]["seed"]},
                           "reannotate": [cls_name, field, new_t]})
    # a weighted grammar that served a search, then has its weights updated, then serves the same seeded search again
    for rep in ("stack", "tree", "ge"):
        for algo in ("gp", "rs"):
            us.append({"kind": "reweighted", "config": {"g": 2, "rep": rep, "algo": algo, "seed": cfgs[0]["seed"], "decider": "pt" if rep != "stack" else "maxdepth"}})
    return us


def run_unit(unit):
    from mc.harness import UnitResult, Violation

    r = UnitResult()
    if unit["kind"] == "reweighted":
        cfg = unit["config"]
        sh: dict = {}
        first = run_config(cfg, want_trace=True, shared=sh)  # the grammar object serves a search with its declared weights ...
        sh.pop("rep", None)
        second = run_config(dict(cfg, _update_weights=True), want_trace=True, shared=sh)  # ... then its weights are updated
        sh["bundle"].cleanup()
        alone = run_config(dict(cfg, _update_weights=True), want_trace=True)  # a fresh grammar, updated before any use
        r.executions += 3
        r.count("reweighted_histories")
        r.nontrivial += 1
        if first[0] == alone[0]:
            r.count("weight_update_without_effect_on_this_search")
        if second[0] != alone[0]:
            k = next((i for i, (x, y) in enumerate(zip(second[1], alone[1])) if x != y), min(len(second[1]), len(alone[1])))
            r.add_violation(Violation(PROP, f"{cfg['algo']}.search", "second-run-differs", {"rep": cfg["rep"], "algo": cfg["algo"], "shared": "reweighted-grammar"},
                                      {"unit": unit, "first_difference": k},
                                      f"{cfg} after grammar.update_weights on a grammar that had already served a search: diverges at evaluation {k} from the "
                                      f"same search on a fresh grammar updated the same way: {second[1][k:k+1]} vs {alone[1][k:k+1]}"))
        r.states += len({second[0], alone[0]})
        r.samples.append({"config": cfg, "reweighted": True})
        return r
    if unit["kind"] == "reannotated":
        from mc import grammars as G

        cfg = unit["config"]
        cls_name, field, new_t = unit["reannotate"]
        sh: dict = {}
        first = run_config(cfg, want_trace=True, shared=sh)
        b = sh["bundle"]
        new_py = G.build_type(new_t, b.classes)
        cls = b.classes[cls_name]
        cls.__init__.__annotations__[field] = new_py
        cls.__annotations__[field] = new_py
        sh.pop("grammar", None)
        sh.pop("rep", None)
        second = run_config(cfg, want_trace=True, shared=sh)
        b.cleanup()
        spec2 = G.respec_field(grammar_specs()[cfg["g"]], cls_name, field, new_t)
        spec2["name"] = grammar_specs()[cfg["g"]]["name"]
        alone = run_config(dict(cfg, _spec=spec2), want_trace=True)
        r.executions += 3
        r.count("reannotated_histories")
        r.nontrivial += 1
        if first[0] == alone[0]:
            r.count("reannotation_without_effect_on_this_search")
        if second[0] != alone[0]:
            k = next((i for i, (x, y) in enumerate(zip(second[1], alone[1])) if x != y), min(len(second[1]), len(alone[1])))
            r.add_violation(Violation(PROP, f"{cfg['algo']}.search", "second-run-differs", {"rep": cfg["rep"], "algo": cfg["algo"], "shared": "reannotated-classes"},
                                      {"unit": unit, "first_difference": k},
                                      f"{cfg} after {cls_name}.{field} was re-declared and the grammar extracted again: the search diverges at evaluation {k} "
                                      f"from the same search on classes declared that way from the start: {second[1][k:k+1]} vs {alone[1][k:k+1]}"))
        r.states += len({second[0], alone[0]})
        r.samples.append({"config": cfg, "reannotate": unit["reannotate"][:2]})
        return r
    if unit["kind"] == "twice":
        cfg = unit["config"]
        a = run_config(cfg, want_trace=True)
        b = run_config(cfg, want_trace=True)
        r.executions += 2
        if cfg.get("shared_rep"):
            # the same grammar and the same (genotype-backed) representation object for two freshly seeded searches
            sh2: dict = {}
            a3 = run_config(cfg, want_trace=True, shared=sh2)
            b3 = run_config(cfg, want_trace=True, shared=sh2)
            sh2["bundle"].cleanup()
            r.executions += 2
            r.count("shared_representation_repeats")
            if a3[0] != b3[0]:
                k = next((i for i, (x, y) in enumerate(zip(a3[1], b3[1])) if x != y), min(len(a3[1]), len(b3[1])))
                r.add_violation(Violation(PROP, f"{cfg['algo']}.search", "second-run-differs", {"rep": cfg["rep"], "algo": cfg["algo"], "shared": "representation"},
                                          {"unit": unit, "first_difference": k},
                                          f"{cfg}: a second search reusing the same representation object (fresh seeded source) diverges at evaluation {k}: "
                                          f"{a3[1][k:k+1]} vs {b3[1][k:k+1]}"))
        if cfg.get("init"):
            # the same grammar and the same initialiser object for two freshly seeded searches
            sh: dict = {}
            a2 = run_config(cfg, want_trace=True, shared=sh)
            b2 = run_config(cfg, want_trace=True, shared=sh)
            sh["bundle"].cleanup()
            r.executions += 2
            if a2[0] != b2[0]:
                k = next((i for i, (x, y) in enumerate(zip(a2[1], b2[1])) if x != y), min(len(a2[1]), len(b2[1])))
                r.add_violation(Violation(PROP, f"{cfg['algo']}.search", "second-run-differs", {"rep": cfg["rep"], "algo": cfg["algo"], "shared": "initializer"},
                                          {"unit": unit, "first_difference": k},
                                          f"{cfg}: a second search reusing the same initialiser object (fresh seeded source) diverges at evaluation {k}: "
                                          f"{a2[1][k:k+1]} vs {b2[1][k:k+1]}"))
        r.states += len({a[0], b[0]})
        r.count("in_process_repeats")
        if a[0] != b[0]:
            k = next((i for i, (x, y) in enumerate(zip(a[1], b[1])) if x != y), min(len(a[1]), len(b[1])))
            r.add_violation(Violation(PROP, f"{cfg['algo']}.search", "second-run-differs", {"rep": cfg["rep"], "algo": cfg["algo"]},
                                      {"unit": unit, "first_difference": k},
                                      f"{cfg}: second run in the same process diverges at evaluation {k}: {a[1][k:k+1]} vs {b[1][k:k+1]}"))
        r.samples.append({"config": cfg, "trace_digest": a[0], "evaluations": len(a[1]) - 1})
        return r
    if unit["kind"] == "orders":
        cfg = unit["config"]
        spec = grammar_specs()[cfg["g"]]
        names = [a[0] for a in spec["abstract"]] + [p[0] for p in spec["prods"]]
        seen = {}
        orders = set()
        k = len(names)
        if k <= 5:
            perms = list(itertools.permutations(range(k)))  # every order (<= 120)
        else:
            # too many orders to enumerate: all rotations and reversed rotations, plus the first lexicographic ones
            base = list(range(k))
            perms = []
            for i in range(k):
                rot = base[i:] + base[:i]
                perms.append(tuple(rot))
                perms.append(tuple(reversed(rot)))
            import random as _random

            rng = _random.Random(20260926)  # a FIXED family of orders (part of the stated alphabet), not a per-run sample
            for _ in range(40):
                p = base[:]
                rng.shuffle(p)
                perms.append(tuple(p))
            perms = list(dict.fromkeys(perms))
        for perm in perms:
            ho = {n: 3 + p for n, p in zip(names, perm)}
            h, tr, order = run_config(cfg, hash_order=ho, want_trace=True)
            r.executions += 1
            orders.add(tuple(order))
            seen.setdefault(h, (ho, tr))
        r.count("hash_order_runs", len(perms))
        r.count("distinct_all_nodes_orders", len(orders))
        r.nontrivial += len(orders)
        r.states += len(seen)
        if len(seen) > 1:
            (h1, (o1, t1)), (h2, (o2, t2)) = list(seen.items())[:2]
            k = next((i for i, (x, y) in enumerate(zip(t1, t2)) if x != y), min(len(t1), len(t2)))
            r.add_violation(Violation(PROP, f"{cfg['algo']}.search", "depends-on-symbol-set-order", {"rep": cfg["rep"], "algo": cfg["algo"]},
                                      {"unit": unit, "hash_order_a": o1, "hash_order_b": o2, "first_difference": k},
                                      f"{cfg}: traces differ between two iteration orders of the grammar's symbol set at evaluation {k}: "
                                      f"{t1[k:k+1]} vs {t2[k:k+1]}"))
        r.samples.append({"config": cfg, "orders_tried": len(perms), "distinct_all_nodes_orders": len(orders), "distinct_traces": len(seen)})
        return r
    # separate processes
    results = []
    procs = []
    for env in unit["envs"]:
        e = dict(os.environ)
        e["PYTHONDONTWRITEBYTECODE"] = "1"
        if env["hashseed"] == "random":
            e.pop("PYTHONHASHSEED", None)
            e["PYTHONHASHSEED"] = "random"
        else:
            e["PYTHONHASHSEED"] = env["hashseed"]
        payload = json.dumps({"pad": env["pad"], "order": env["order"], "configs": unit["configs"]})
        procs.append((env, subprocess.Popen([sys.executable, os.path.abspath(__file__), "--worker", payload], env=e,
                                            stdout=subprocess.PIPE, stderr=subprocess.PIPE, text=True, cwd=HERE)))
    for env, p in procs:
        out, err = p.communicate(timeout=1500)
        line = [ln for ln in out.splitlines() if ln.startswith("RESULT ")]
        if p.returncode != 0 or not line:
            r.harness_error = f"worker {env} failed: rc={p.returncode} {err[-800:]}"
            return r
        results.append((env, json.loads(line[0][7:])))
    r.count("process_environments", len(results))
    for i, cfg in enumerate(unit["configs"]):
        hs = {}
        orders = set()
        for env, res in results:
            r.executions += 1
            hs.setdefault(res[str(i)]["h"], env)
            orders.add(tuple(res[str(i)]["order"]))
        r.states += len(hs)
        if len(orders) > 1:
            r.nontrivial += 1
            r.count("configs_where_all_nodes_order_differed_between_processes")
        if len(hs) > 1:
            (h1, e1), (h2, e2) = list(hs.items())[:2]
            r.add_violation(Violation(PROP, f"{cfg['algo']}.search", "differs-between-processes", {"rep": cfg["rep"], "algo": cfg["algo"]},
                                      {"unit": {"kind": "processes", "envs": [e1, e2], "configs": [cfg]}, "env_a": e1, "env_b": e2},
                                      f"{cfg}: trace digest {h1[:8]} in {e1} but {h2[:8]} in {e2}"))
    r.samples.append({"environments": [e for e, _ in results][:3], "configs": len(unit["configs"])})
    return r


def finalize(cr):
    cr.require("in_process_repeats")
    cr.require("hash_order_runs")
    cr.require("process_environments")
    cr.exhaustive = False
    cr.assumptions += [
        "process environments are a finite alphabet (PYTHONHASHSEED x heap padding x import order), not all memory layouts; the "
        "in-process hash-controlled metaclass makes the set-iteration-order dimension exhaustive for grammars of <= 4 classes",
        "wall-clock budgets are excepted by the property",
    ]


if __name__ == "__main__":
    if len(sys.argv) > 2 and sys.argv[1] == "--worker":
        sys.exit(worker_main(sys.argv[2:]))
