"""C19 -- production weights are normalised per non-terminal, stable and respected."""
from __future__ import annotations

import itertools

from geneticengine.grammar.decorators import get_gengy
from geneticengine.grammar.grammar import extract_grammar
from geneticengine.representations.tree.initializations import ProgressivelyTerminalDecider
from geneticengine.representations.tree.treebased import TreeBasedRepresentation

from mc import grammars as G
from mc import refsem as R
from mc.explorer import ExploreStats, HorizonExceeded, explore
from mc.harness import UnitResult, Violation
from mc.snapshot import tname
from checks import producers as P
from checks.common import exc_brief, is_library_error, make_rep

PROP = "C19"
TECHNIQUE = (
    "exhaustive enumeration of weight assignments over {unweighted,0,1,3,0.5} on generated hierarchies (2-3 productions "
    "per abstract type, nested abstract types) x 1-3 repeated extractions on fresh classes, compared with the declared "
    "ratios; weight-aware choosers (ProgressivelyTerminalDecider, stack mapping) explored over the complete "
    "choice_weighted answer space (E1 with threshold answers) with every production choice logged"
)
RULE = (
    "unit = hierarchy shape x weight assignment (at least one positive weight per rule) x number of extractions; "
    "non-trivial = assignment with a zero weight or an unweighted production next to weighted ones"
)

WEIGHTS = [None, 0, 1, 3, 0.5]


def shapes():
    two = {"name": "W2", "abstract": [["A", None, "ABC"]],
           "prods": [["L", "A", None, [["v", G.IR01]]], ["P", "A", None, [["x", G.ref("A")]]]], "start": "A"}
    three = {"name": "W3", "abstract": [["A", None, "ABC"]],
             "prods": [["L", "A", None, [["v", G.IR01]]], ["K", "A", None, [["v", G.IR22]]], ["P", "A", None, [["x", G.ref("A")]]]], "start": "A"}
    nested = {"name": "WN", "abstract": [["A", None, "ABC"], ["B", "A", "decorator"]],
              "prods": [["L", "A", None, [["v", G.IR01]]], ["M", "B", None, [["v", G.IR22]]], ["N", "B", None, [["a", G.ref("A")]]]], "start": "A"}
    nested_start = {"name": "WNs", "abstract": [["A", None, "ABC"], ["B", "A", "decorator"]],
                    "prods": [["L", "A", None, [["v", G.IR01]]], ["M", "B", None, [["v", G.IR22]]], ["N", "B", None, [["a", G.ref("A")]]]],
                    "start": "B", "considered": ["A", "L", "M", "N"]}
    concrete_start = {"name": "WCs", "abstract": [["A", None, "ABC"]],
                      "prods": [["L", "A", None, [["v", G.IR01]]], ["K", "A", None, [["v", G.IR22]]], ["P", "A", None, [["x", G.ref("A")]]]],
                      "start": "P", "considered": ["A", "L", "K"]}
    # the nested abstract layer is not among the considered subtypes (only the productions are supplied)
    nested_unlisted = {"name": "WNu", "abstract": [["A", None, "ABC"], ["B", "A", "decorator"]],
                       "prods": [["L", "A", None, [["v", G.IR01]]], ["M", "B", None, [["v", G.IR22]]], ["N", "B", None, [["a", G.ref("A")]]]],
                       "start": "A", "considered": ["L", "M", "N"]}
    # a field typed as a Union of productions: the weight-aware chooser decides between the members as well
    union_field = {"name": "WU", "abstract": [["A", None, "ABC"]],
                   "prods": [["L", "A", None, [["v", G.IR01]]], ["K", "A", None, [["v", G.IR22]]],
                             ["P", "A", None, [["u", ["union", G.ref("L"), G.ref("K")]]]]], "start": "A"}
    # ... and the same with the union-holding production as (concrete) start symbol, so that the chooser cannot avoid it
    union_start = {"name": "WUs", "abstract": [["A", None, "ABC"]],
                   "prods": [["L", "A", None, [["v", G.IR01]]], ["K", "A", None, [["v", G.IR22]]],
                             ["P", "A", None, [["u", ["union", G.ref("L"), G.ref("K")]], ["a", G.ref("A")]]]],
                   "start": "P", "considered": ["A", "L", "K"]}
    # no recursion at all and an abstract layer without productions (the depth heuristic of the progressively terminal
    # chooser goes negative for every alternative)
    flat_empty = {"name": "WE", "abstract": [["A", None, "ABC"], ["B", "A", "decorator"]],
                  "prods": [["L", "A", None, [["v", G.IR01]]], ["K", "A", None, [["v", G.IR22]]], ["M", "A", None, [["w", "bool"]]]], "start": "A"}
    return [two, three, nested, nested_start, concrete_start, nested_unlisted, union_field, union_start, flat_empty]


def assignments(spec, tier):
    names = [p[0] for p in spec["prods"]]
    nested_abs = [a[0] for a in spec["abstract"] if a[1] is not None]
    slots = names + nested_abs
    view = R.SpecView(spec)
    for combo in itertools.product(WEIGHTS, repeat=len(slots)):
        if all(c is None for c in combo):
            continue
        asg = dict(zip(slots, combo))
        ok = True
        considered = spec.get("considered")
        if considered is not None and not any(asg.get(c) is not None for c in considered):
            continue  # weights are only taken into account when a *supplied* class carries one
        for a in view.abstract:
            ws = [1 if asg.get(c) is None else asg[c] for c in view.productions(a)]
            if ws and not any(w > 0 for w in ws):  # (an abstract layer without productions has nothing to normalise)
                ok = False
        if ok:
            yield asg


def units(tier, seed):
    us = []
    for spec in shapes():
        asgs = list(assignments(spec, tier))
        if tier == "quick" and spec["name"] in ("WNu", "WE"):
            asgs = asgs[::3]  # same class structure as WN: a third of the assignments in the quick tier
        for asg in asgs:
            us.append({"kind": "weights", "spec": spec, "weights": asg, "extractions": 3})
            if any(asg.get(a[0]) is not None and (a[2] == "decorator" or a[1] is not None) for a in spec["abstract"]):
                # the two decorators stacked the other way round: @abstract above @weight(w)
                us.append({"kind": "weights", "spec": spec, "weights": asg, "extractions": 2, "order": "abstract-last"})
    for spec in shapes()[:3] + [s for s in shapes() if s["name"] in ("WCs", "WUs")]:
        for zero in [p[0] for p in spec["prods"]]:
            us.append({"kind": "reweight", "spec": spec, "zero": zero})
    for spec in shapes():
        for asg in list(assignments(spec, tier))[:: 1 if tier != "quick" else 3]:
            if any(w == 0 for w in asg.values()) and _terminates_without_zero(spec, asg):
                us.append({"kind": "chooser", "spec": spec, "weights": asg, "max_execs": 400 if tier == "quick" else 3000})
    return us


def _terminates_without_zero(spec, asg) -> bool:
    """Choosers can only avoid zero-weight productions if the positive-weight part of the grammar still
    derives a finite program from every reachable symbol (otherwise a zero-weight production is the
    only way to terminate and picking it is not a defect)."""
    s = dict(spec)
    dropped = {n for n, w in asg.items() if w == 0}
    s["prods"] = [p if p[0] not in dropped else [p[0], None, p[2], p[3]] for p in spec["prods"]]
    s["abstract"] = [a if a[0] not in dropped else [a[0], None, a[2]] for a in spec["abstract"]]
    d = R.ref_min_depth(s)
    live = [n for n in d if n not in dropped]
    return all(d[n] < R.INF for n in live)


def build_weighted(spec, asg, order=None):
    s = dict(spec)
    s["prods"] = [[p[0], p[1], asg.get(p[0]), p[3]] for p in spec["prods"]]
    b = G.build(s)
    from geneticengine.grammar.decorators import weight

    for a in spec["abstract"]:
        if asg.get(a[0]) is not None:
            weight(asg[a[0]])(b.classes[a[0]])
            if order == "abstract-last" and (a[2] == "decorator" or a[1] is not None):
                from geneticengine.grammar.decorators import abstract

                abstract(b.classes[a[0]])
    return b


def run_weights(unit) -> UnitResult:
    r = UnitResult()
    spec, asg = unit["spec"], unit["weights"]
    view = R.SpecView(spec)
    b = build_weighted(spec, asg, unit.get("order"))
    w0 = {"unit": unit}
    try:
        prev = None
        if any(v == 0 for v in asg.values()) or any(v is None for v in asg.values()):
            r.nontrivial += 1
        for k in range(unit["extractions"]):
            try:
                g = b.extract()
            except Exception as e:  # noqa
                r.executions += 1
                r.add_violation(Violation(PROP, "extract_grammar", "raised", {"exc": type(e).__name__, "extraction": min(k, 1)}, w0,
                                          f"{spec['name']} weights {asg}: extraction {k + 1}: {exc_brief(e)}"))
                return r
            r.executions += 1
            ws = {tname(c): v for c, v in g.get_weights().items()}
            for a in view.abstract:
                prods = view.productions(a)
                if not prods:
                    continue  # an abstract layer without productions: nothing to normalise
                got = [ws[p] for p in prods]
                decl = [1 if asg.get(p) is None else asg[p] for p in prods]
                tot = sum(decl)
                r.count("rules_checked")
                if any(x < 0 for x in got):
                    r.add_violation(Violation(PROP, "Grammar.get_weights", "negative-weight", {}, w0, f"{spec['name']} {asg}: rule {a}: {got}"))
                if abs(sum(got) - 1) > 1e-9:
                    r.add_violation(Violation(PROP, "Grammar.get_weights", "not-normalised", {"extraction": min(k, 1)}, w0,
                                              f"{spec['name']} {asg}: rule {a}: weights {dict(zip(prods, got))} sum to {sum(got)} after extraction {k + 1}"))
                elif any(abs(x - d / tot) > 1e-9 for x, d in zip(got, decl)):
                    r.add_violation(Violation(PROP, "Grammar.get_weights", "ratios-not-preserved", {"extraction": min(k, 1)}, w0,
                                              f"{spec['name']} {asg}: rule {a}: weights {dict(zip(prods, got))}, declared ratios {dict(zip(prods, decl))} "
                                              f"after extraction {k + 1}"))
            if prev is not None:
                for n in ws:
                    if abs(ws[n] - prev.get(n, ws[n])) > 1e-12:
                        r.add_violation(Violation(PROP, "extract_grammar", "re-extraction-changes-weights", {}, w0,
                                                  f"{spec['name']} {asg}: weight of {n} went {prev[n]} -> {ws[n]} at extraction {k + 1}"))
            prev = ws
        r.states = 1
        if len(r.samples) < 1:
            r.samples.append({"shape": spec["name"], "declared": asg, "normalised": prev})
    finally:
        b.cleanup()
    return r


def run_chooser(unit) -> UnitResult:
    r = UnitResult()
    spec, asg = unit["spec"], unit["weights"]
    b = build_weighted(spec, asg, unit.get("order"))
    w0 = {"unit": unit}
    try:
        try:
            g = b.extract()
        except Exception:
            return r
        gw = g.get_weights()
        log: list = []

        class LoggingPT(ProgressivelyTerminalDecider):
            def choose_production_alternatives(self, ty, alternatives, ctx):
                c = super().choose_production_alternatives(ty, alternatives, ctx)
                log.append((list(alternatives), c))
                return c

        def run(src):
            log.clear()
            rep = TreeBasedRepresentation(g, LoggingPT(src, g))
            try:
                return rep.create_genotype(src)
            finally:
                run.last = list(log)

        st = ExploreStats()
        for ex in explore(run, max_execs=unit["max_execs"], horizon=25, stats=st):
            r.executions += 1
            for alts, c in getattr(run, "last", []):
                r.count("production_choices_logged")
                if gw.get(c, 1) == 0 and any(gw.get(x, 1) > 0 for x in alts):
                    r.add_violation(Violation(PROP, "ProgressivelyTerminalDecider.choose_production_alternatives", "zero-weight-chosen", {}, 
                                              dict(w0, choices=list(ex.choices)),
                                              f"{spec['name']} {asg}: chose {tname(c)} (weight 0) among {[tname(x) for x in alts]} with weights {[gw.get(x, 1) for x in alts]}"))
        r.capped += st.capped_paths
        r.abstracted += st.abstracted_points
        r.nontrivial += 1
        # stack mapping: a zero-weight production is never constructed
        zero = {c for c, v in gw.items() if v == 0}
        alpha = P.stack_alphabet(g)
        import geneticengine.representations.stackgggp as S

        for dna in itertools.product(alpha, repeat=3):
            try:
                p = S.StackBasedGGGPRepresentation(g, gene_length=3).genotype_to_phenotype(S.Genotype(list(dna)))
            except (Exception, HorizonExceeded):
                r.executions += 1
                continue
            r.executions += 1
            r.count("stack_programs")
            bad = [n for n in _nodes(p) if type(n) in zero]
            if bad:
                r.add_violation(Violation(PROP, "stack.genotype_to_phenotype", "zero-weight-chosen", {}, dict(w0, dna=list(dna)),
                                          f"{spec['name']} {asg}: stack program {R.show(R.term(p))[:100]} contains zero-weight production {type(bad[0]).__name__}"))
        r.states = 1
        if len(r.samples) < 1:
            r.samples.append({"shape": spec["name"], "declared": asg, "pt_paths": st.executions})
    finally:
        b.cleanup()
    return r


def _nodes(v):
    out = []
    if isinstance(v, (list, tuple)):
        for x in v:
            out.extend(_nodes(x))
    elif type(v).__module__ != "builtins":
        out.append(v)
        for n in R._field_names(type(v)):
            out.extend(_nodes(getattr(v, n)))
    return out


def run_reweight(unit) -> UnitResult:
    """A decider that has already made choices keeps respecting the weights after they are changed through the
    public Grammar.update_weights (here: one production is driven to weight zero)."""
    r = UnitResult()
    spec, zero = unit["spec"], unit["zero"]
    asg = {p[0]: 2 for p in spec["prods"]}
    if not _terminates_without_zero(spec, {zero: 0}):
        return r
    b = build_weighted(spec, asg)
    try:
        g = b.extract()
        log: list = []

        class LoggingPT(ProgressivelyTerminalDecider):
            def choose_production_alternatives(self, ty, alternatives, ctx):
                c = super().choose_production_alternatives(ty, alternatives, ctx)
                log.append((list(alternatives), c))
                return c

        from mc.explorer import ExhaustiveSource

        # first use of the decider with the original weights, then the weight change (outside the explored call)
        src0 = ExhaustiveSource((), horizon=200)
        dec = LoggingPT(src0, g)
        try:
            TreeBasedRepresentation(g, dec).create_genotype(src0)
        except BaseException:  # noqa
            pass
        # the stack representation maps genomes over this grammar object before the change as well (with the genomes its own
        # machine completes) ...
        import geneticengine.representations.stackgggp as S

        for genome, _ in P.stack_guided_genomes(g):
            try:
                S.StackBasedGGGPRepresentation(g, gene_length=len(genome)).genotype_to_phenotype(S.Genotype(list(genome)))
            except BaseException:  # noqa
                pass
        w = g.get_weights()
        extra = {c: 0.0 for c in w}
        extra[b.classes[zero]] = -w[b.classes[zero]]
        g.update_weights(1, extra)
        # ... and afterwards: no program it builds contains the production that now has weight zero
        zero_cls = b.classes[zero]
        if g.get_weights().get(zero_cls, 1) == 0:
            for genome, _ in P.stack_guided_genomes(g):
                try:
                    prog = S.StackBasedGGGPRepresentation(g, gene_length=len(genome)).genotype_to_phenotype(S.Genotype(list(genome)))
                except BaseException:  # noqa
                    continue
                r.executions += 1
                r.count("stack_programs_after_reweighting")
                if any(type(n) is zero_cls for n in _nodes(prog)):
                    r.add_violation(Violation(PROP, "stack.genotype_to_phenotype", "zero-weight-chosen", {"after_reweighting": True}, {"unit": unit, "genome": list(genome)},
                                              f"{spec['name']}: after update_weights drove {zero} to 0, the stack mapping over the same grammar object still builds "
                                              f"{R.show(R.term(prog))[:100]}"))
                    break

        def run(src):
            # the decider lives across the weight change; its random source is re-pointed at the explorer's
            dec.random = src
            log.clear()
            try:
                return TreeBasedRepresentation(g, dec).create_genotype(src)
            finally:
                run.last = list(log)

        st = ExploreStats()
        first = True
        for ex in explore(run, max_execs=300, horizon=25, stats=st):
            r.executions += 1
            gw = g.get_weights()
            for alts, c in getattr(run, "last", []):
                r.count("production_choices_logged")
                if gw.get(c, 1) == 0 and any(gw.get(x, 1) > 0 for x in alts):
                    r.add_violation(Violation(PROP, "ProgressivelyTerminalDecider.choose_production_alternatives", "zero-weight-chosen", {"after_reweighting": True},
                                              {"unit": unit, "choices": list(ex.choices)},
                                              f"{spec['name']}: after update_weights drove {zero} to 0, the decider that was already in use chose {tname(c)} among "
                                              f"{[tname(x) for x in alts]} with weights {[gw.get(x, 1) for x in alts]}"))
        r.nontrivial += 1
        r.states = 1
        r.capped += st.capped_paths
        r.samples.append({"shape": spec["name"], "zeroed_by_update_weights": zero, "paths": st.executions})
    finally:
        b.cleanup()
    return r


def run_unit(unit) -> UnitResult:
    P.patch_stack_horizon()
    if unit["kind"] == "reweight":
        return run_reweight(unit)
    return run_weights(unit) if unit["kind"] == "weights" else run_chooser(unit)


def finalize(cr):
    cr.require("rules_checked")
    cr.require("production_choices_logged")
