"""C12 -- the reported best individual really is the best one evaluated."""
from __future__ import annotations

import itertools

from geneticengine.algorithms.gp.gp import GeneticProgramming
from geneticengine.algorithms.hill_climbing import HC
from geneticengine.algorithms.one_plus_one import OnePlusOne
from geneticengine.algorithms.random_search import RandomSearch
from geneticengine.evaluation.budget import EvaluationBudget
from geneticengine.evaluation.recorder import SearchRecorder
from geneticengine.evaluation.sequential import SequentialEvaluator
from geneticengine.evaluation.tracker import MultiObjectiveProgressTracker, SingleObjectiveProgressTracker
from geneticengine.problems import MultiObjectiveProblem, SingleObjectiveProblem
from geneticengine.solutions.individual import Individual

from mc.explorer import ExploreStats, explore
from mc.harness import UnitResult, Violation
from mc.stubrep import InvocationLog, StubRepresentation
from checks.common import exc_brief

PROP = "C12"
TECHNIQUE = (
    "exhaustive enumeration of evaluation histories: every fitness sequence over a small alphabet up to length 5-6 x "
    "optimisation direction x every split into evaluate() batches x tracker kind x re-presentation of evaluated "
    "individuals, against a running-best reference model; the four search algorithms on a stub representation with the "
    "fitness landscape answered by the explorer (E1, deviation bounded), including GP steps that evaluate offspring themselves; problems.helpers (best_individual, is_better, sort_population) on every population of up to 4-5 individuals over a fitness alphabet with infinities"
)
RULE = (
    "history = (fitness sequence, batching, direction, tracker kind); a recorder observes is_best and reads "
    "get_best_individual(s) inside the callback; non-trivial = history with a tie, a plateau followed by an improvement, "
    "or a re-presented individual"
)


class Rec(SearchRecorder):
    def __init__(self):
        self.events = []

    def register(self, tracker, individual, problem, is_best):
        if hasattr(tracker, "get_best_individuals"):
            best = list(tracker.get_best_individuals())
        else:
            best = [tracker.get_best_individual()]
        self.events.append((individual, is_best, best))


def compositions(n):
    """All ways of splitting n items into consecutive non-empty batches."""
    if n == 0:
        yield []
        return
    for first in range(1, n + 1):
        for rest in compositions(n - first):
            yield [first] + rest


def units(tier, seed):
    us = []
    maxlen = 5 if tier == "quick" else 6
    alpha = [0, 1, 2] if tier == "quick" else [0, 1, 2, -1, 0.5]
    for L in range(1, maxlen + 1):
        for minimize in (False, True):
            us.append({"kind": "single", "L": L, "minimize": minimize, "alpha": alpha if L <= 5 else [0, 1, 2]})
    inf = float("inf")
    for minimize in (False, True):
        us.append({"kind": "single", "L": 3, "minimize": minimize, "alpha": [inf, -inf, 1]})
        # real improvements that are tiny relative to the magnitude of the fitness
        us.append({"kind": "single", "L": 3, "minimize": minimize, "alpha": [5e9, 5e9 + 1, 5e9 + 2, -5e9 - 1]})
        us.append({"kind": "single", "L": 3, "minimize": minimize, "alpha": [1e-12, 2e-12, 0.0]})
    for mode in ("list-FF", "list-FT", "list-TT", "bool-F", "bool-T", "aggregate"):
        for L in range(1, 4 if tier == "quick" else 5):
            us.append({"kind": "multi", "L": L, "mode": mode})
    for mode in ("list-FT", "bool-T"):
        us.append({"kind": "multisearch", "mode": mode, "n": 6, "max_dev": 2 if tier == "quick" else 3, "max_execs": 1500 if tier == "quick" else 20000})
        for algo in ("gp", "rs", "hc", "1+1"):
            for trk in ("given", "own"):
                if (algo, trk) != ("gp", "given"):
                    us.append({"kind": "multisearch", "mode": mode, "n": 5, "algo": algo, "tracker": trk, "max_dev": 2 if tier == "quick" else 3,
                               "max_execs": 600 if tier == "quick" else 8000})
    for mode in ("max", "min", "multi"):
        for n in (1, 2, 3, 4) if tier == "quick" else (1, 2, 3, 4, 5):
            us.append({"kind": "helpers", "mode": mode, "n": n})
    for algo in ("gp", "rs", "hc", "1+1"):
        for minimize in (False, True):
            for n in (3, 6) if tier == "quick" else (3, 6, 9):
                us.append({"kind": "search", "algo": algo, "minimize": minimize, "n": n,
                           "max_dev": 2 if tier == "quick" else 3, "max_execs": 4000 if tier == "quick" else 60000})
                if algo == "gp":
                    # a step that evaluates offspring itself (selection after variation) before the next population is built
                    us.append({"kind": "search", "algo": algo, "minimize": minimize, "n": n, "step": "mutation-then-tournament",
                               "max_dev": 2 if tier == "quick" else 3, "max_execs": 4000 if tier == "quick" else 60000})
    return us


def better(a, b, minimize):
    return a < b if minimize else a > b


def run_single(unit) -> UnitResult:
    r = UnitResult()
    L, minimize = unit["L"], unit["minimize"]
    rep = StubRepresentation(2)
    for seq in itertools.product(unit["alpha"], repeat=L):
        interesting = len(set(seq)) < len(seq) or any(seq[i] == seq[i - 1] for i in range(1, L))
        for batches in compositions(L):
            for represent in (False, True):
                log = InvocationLog()
                vals = {}

                def ff(p):
                    log.calls.append(p.v)
                    return vals[p.v]

                problem = SingleObjectiveProblem(ff, minimize=minimize)
                rec = Rec()
                tracker = SingleObjectiveProgressTracker(problem, SequentialEvaluator(), recorders=[rec])
                inds = []
                for i, f in enumerate(seq):
                    vals[i] = f
                    inds.append(Individual(rep._new(i), rep))
                    inds[-1].genotype.v = i
                pos = 0
                order = []
                for b in batches:
                    batch = inds[pos: pos + b]
                    if represent and pos > 0:
                        batch = [inds[0]] + batch  # an already evaluated individual is presented again
                    tracker.evaluate(batch)
                    order.extend(batch)
                    pos += b
                r.executions += 1
                if interesting or represent:
                    r.nontrivial += 1
                w = {"unit": unit, "sequence": list(seq), "batches": batches, "represent": represent}
                # reference model
                best_val = None
                if len(rec.events) != len(order):
                    r.add_violation(Violation(PROP, "SingleObjectiveProgressTracker.evaluate", "recorder-not-called-once-per-individual", {}, w,
                                              f"seq {seq} batches {batches}: {len(rec.events)} register calls for {len(order)} presented individuals"))
                    continue
                for k, (ind, is_best, best) in enumerate(rec.events):
                    fv = seq[ind.genotype.v]
                    want = best_val is None or better(fv, best_val, minimize)
                    if want:
                        best_val = fv
                    if is_best != want:
                        r.add_violation(Violation(PROP, "SearchRecorder.register", "is_best-flag", {"minimize": minimize, "expected": want}, w,
                                                  f"minimize={minimize} seq {seq} batches {batches}: event {k} (fitness {fv}) is_best={is_best}, "
                                                  f"reference {want} (best before: {best_val})"))
                    b0 = best[0]
                    if b0 is None or seq[b0.genotype.v] != best_val:
                        r.add_violation(Violation(PROP, "SingleObjectiveProgressTracker.get_best_individual", "not-the-best-so-far", {"minimize": minimize}, w,
                                                  f"minimize={minimize} seq {seq}: after event {k} best reported has fitness "
                                                  f"{None if b0 is None else seq[b0.genotype.v]}, best so far is {best_val}"))
                fin = tracker.get_best_individual()
                allbest = (min if minimize else max)(seq)
                if fin is None or seq[fin.genotype.v] != allbest:
                    r.add_violation(Violation(PROP, "SingleObjectiveProgressTracker.get_best_individual", "not-the-best-so-far", {"minimize": minimize}, w,
                                              f"minimize={minimize} seq {seq}: final best has fitness {None if fin is None else seq[fin.genotype.v]} != {allbest}"))
                # recorded fitness vs direction
                f0 = inds[0].get_fitness(problem)
                if f0.fitness_components != [float(seq[0])] or f0.maximizing_aggregate != (-seq[0] if minimize else seq[0]):
                    r.add_violation(Violation(PROP, "SingleObjectiveProblem.evaluate", "aggregate-direction", {"minimize": minimize}, w, f"{f0} for value {seq[0]}"))
    r.states = len(unit["alpha"]) ** L
    r.samples.append({"tracker": "single", "L": L, "minimize": minimize, "sequences": r.states})
    return r


def run_multi(unit) -> UnitResult:
    r = UnitResult()
    L, mode = unit["L"], unit["mode"]
    rep = StubRepresentation(2)
    vecs = list(itertools.product([0, 1, 2], repeat=2))
    for seq, represent in itertools.product(itertools.product(vecs, repeat=L), (None, "first", "previous")):
        if represent and L < 2:
            continue
        for batches in compositions(L):
            vals = {}

            def ff(p):
                return list(vals[p.v])

            if mode.startswith("list"):
                mins = [c == "T" for c in mode.split("-")[1]]
                problem = MultiObjectiveProblem(mins, ff)
                agg = lambda v: sum(-x if m else x for x, m in zip(v, mins))  # noqa
            elif mode.startswith("bool"):
                m = mode.endswith("T")
                problem = MultiObjectiveProblem(m, ff)
                agg = lambda v: sum(-x if m else x for x in v)  # noqa
            else:
                problem = MultiObjectiveProblem([False, False], ff, aggregate_fitness=lambda xs: 2 * xs[0] - xs[1])
                agg = lambda v: 2 * v[0] - v[1]  # noqa
            rec = Rec()
            tracker = MultiObjectiveProgressTracker(problem, SequentialEvaluator(), recorders=[rec])
            inds = []
            for i, f in enumerate(seq):
                vals[i] = f
                inds.append(Individual(rep._new(i), rep))
                inds[-1].genotype.v = i
            pos = 0
            for b in batches:
                batch = inds[pos: pos + b]
                if represent == "first" and pos > 0:
                    batch = [inds[0]] + batch  # an already registered individual (possibly displaced since) comes again
                elif represent == "previous" and pos > 0:
                    batch = batch + [inds[pos - 1]]
                tracker.evaluate(batch)
                pos += b
            r.executions += 1
            if len(set(agg(v) for v in seq)) < L or represent:
                r.nontrivial += 1
            w = {"unit": unit, "sequence": [list(x) for x in seq], "batches": batches, "represent": represent}
            best_agg = None
            for k, (ind, is_best, best) in enumerate(rec.events):
                a = agg(seq[ind.genotype.v])
                got = ind.get_fitness(problem).maximizing_aggregate
                if abs(got - a) > 1e-9:
                    r.add_violation(Violation(PROP, "MultiObjectiveProblem.evaluate", "aggregate-direction", {"mode": mode}, w,
                                              f"{mode}: components {seq[ind.genotype.v]} aggregate {got}, reference {a}"))
                best_agg = a if best_agg is None else max(best_agg, a)
                if is_best and a != best_agg:
                    r.add_violation(Violation(PROP, "SearchRecorder.register", "is_best-flag", {"mode": mode, "expected": False}, w,
                                              f"{mode} seq {seq}: event {k} aggregate {a} flagged best, best so far {best_agg}"))
                for bi in best:
                    if agg(seq[bi.genotype.v]) != best_agg:
                        r.add_violation(Violation(PROP, "MultiObjectiveProgressTracker.get_best_individuals", "not-the-best-so-far", {"mode": mode}, w,
                                                  f"{mode} seq {seq}: after event {k} a reported best has aggregate {agg(seq[bi.genotype.v])}, best so far {best_agg}"))
                if not best:
                    r.add_violation(Violation(PROP, "MultiObjectiveProgressTracker.get_best_individuals", "empty", {"mode": mode}, w, f"{mode} seq {seq}: no best after event {k}"))
    r.states = len(vecs) ** L
    r.samples.append({"tracker": "multi", "mode": mode, "L": L, "sequences": r.states})
    return r


def run_search(unit) -> UnitResult:
    r = UnitResult()
    algo, minimize, n = unit["algo"], unit["minimize"], unit["n"]

    def run(src):
        rep = StubRepresentation(2)
        log = []

        def ff(p):
            v = src.randint(0, 2)  # the landscape is answered by the explorer
            log.append(v)
            return v

        problem = SingleObjectiveProblem(ff, minimize=minimize)
        rec = Rec()
        tracker = SingleObjectiveProgressTracker(problem, SequentialEvaluator(), recorders=[rec])
        budget = EvaluationBudget(n)
        handed = []
        orig_evaluate = tracker.evaluate

        def logging_evaluate(individuals):
            inds = list(individuals)
            out = orig_evaluate(inds)
            handed.extend(i.get_fitness(problem).fitness_components[0] for i in inds if i.has_fitness(problem))
            return out

        tracker.evaluate = logging_evaluate
        tracker.handed = handed
        if algo == "gp" and unit.get("step") == "mutation-then-tournament":
            from geneticengine.algorithms.gp.operators.combinators import SequenceStep
            from geneticengine.algorithms.gp.operators.mutation import GenericMutationStep
            from geneticengine.algorithms.gp.operators.selection import TournamentSelection

            alg = GeneticProgramming(problem, budget, rep, random=src, tracker=tracker, population_size=3,
                                     step=SequenceStep(GenericMutationStep(1), TournamentSelection(2, with_replacement=True)))
        elif algo == "gp":
            alg = GeneticProgramming(problem, budget, rep, random=src, tracker=tracker, population_size=3)
        elif algo == "rs":
            alg = RandomSearch(problem, budget, rep, random=src, tracker=tracker)
        elif algo == "hc":
            alg = HC(problem, budget, rep, random=src, tracker=tracker, number_of_mutations=2)
        else:
            alg = OnePlusOne(problem, budget, rep, random=src, tracker=tracker)
        res = alg.search()
        return res, problem, log, rec, tracker

    st = ExploreStats()
    for ex in explore(run, max_dev=unit["max_dev"], max_execs=unit["max_execs"], horizon=5000, stats=st):
        r.executions += 1
        if ex.capped:
            continue
        w = {"unit": unit, "choices": list(ex.choices)}
        if ex.exc is not None:
            r.count("search_raised(other properties' business)")
            continue
        res, problem, log, rec, tracker = ex.result
        best = (min if minimize else max)(log)
        r.count("searches")
        if len(set(log)) > 1:
            r.nontrivial += 1
        got = res.get_fitness(problem).fitness_components[0] if res is not None and res.has_fitness(problem) else None
        if got != best:
            presented = bool(tracker.handed) and (min if minimize else max)(tracker.handed) == best
            r.add_violation(Violation(PROP, f"{algo}.search", "returned-not-best",
                                      {"algo": algo, "minimize": minimize, "step": unit.get("step", "default"), "best_presented_to_tracker": presented}, w,
                                      f"{algo} minimize={minimize}: search returned fitness {got}, evaluated {log}"))
        if res is not tracker.get_best_individual():
            r.add_violation(Violation(PROP, f"{algo}.search", "returned-not-tracker-best", {"algo": algo}, w, f"{algo}: returned individual is not the tracker's best"))
        bv = None
        for k, (ind, is_best, _) in enumerate(rec.events):
            fv = ind.get_fitness(problem).fitness_components[0]
            want = bv is None or better(fv, bv, minimize)
            if want:
                bv = fv
            if want != is_best:
                r.add_violation(Violation(PROP, "SearchRecorder.register", "is_best-flag", {"minimize": minimize, "expected": want}, w,
                                          f"{algo}: event {k} fitness {fv} is_best={is_best}, reference {want}"))
    r.states = st.executions
    r.truncated = st.truncated
    r.samples.append({"algo": algo, "minimize": minimize, "budget": n, "executions": st.executions, "completed_dev_bound": st.completed_dev_bound})
    return r


def run_multisearch(unit) -> UnitResult:
    """GP on a multi-objective problem: the returned individual attains the best aggregate evaluated."""
    r = UnitResult()
    mode = unit["mode"]

    def run(src):
        rep = StubRepresentation(2)
        log = []

        def ff(p):
            v = [float(src.randint(0, 2)), float(src.randint(0, 2))]
            log.append(v)
            return v

        mins = [False, True] if mode == "list-FT" else True
        problem = MultiObjectiveProblem(mins, ff)
        rec = Rec()
        tracker = MultiObjectiveProgressTracker(problem, SequentialEvaluator(), recorders=[rec])
        algo = unit.get("algo", "gp")
        # (a tracker of the user's, or the one the algorithm builds itself for a non-single-objective problem)
        kw = {"tracker": tracker} if unit.get("tracker", "given") == "given" else {}
        if algo == "gp":
            alg = GeneticProgramming(problem, EvaluationBudget(unit["n"]), rep, random=src, population_size=3, **kw)
        elif algo == "rs":
            alg = RandomSearch(problem, EvaluationBudget(unit["n"]), rep, random=src, **kw)
        elif algo == "hc":
            alg = HC(problem, EvaluationBudget(unit["n"]), rep, random=src, number_of_mutations=2, **kw)
        else:
            alg = OnePlusOne(problem, EvaluationBudget(unit["n"]), rep, random=src, **kw)
        res = alg.search()
        return res, problem, log, alg.tracker

    def agg(v):
        if mode == "list-FT":
            return v[0] - v[1]
        return -v[0] - v[1]

    st = ExploreStats()
    for ex in explore(run, max_dev=unit["max_dev"], max_execs=unit["max_execs"], horizon=5000, stats=st):
        r.executions += 1
        if ex.capped or ex.exc is not None:
            r.count("search_raised(other properties' business)")
            continue
        res, problem, log, tracker = ex.result
        r.count("searches")
        best = max(agg(v) for v in log)
        if len({agg(v) for v in log}) > 1:
            r.nontrivial += 1
        w = {"unit": unit, "choices": list(ex.choices)}
        got = res.get_fitness(problem) if res is not None and res.has_fitness(problem) else None
        if got is None or abs(agg(got.fitness_components) - best) > 1e-9:
            r.add_violation(Violation(PROP, f"{unit.get('algo', 'gp')}.search", "returned-not-best", {"algo": unit.get("algo", "gp"), "multi": True}, w,
                                      f"multi-objective {unit.get('algo', 'gp')} ({mode}, tracker {unit.get('tracker', 'given')}): returned {None if got is None else got.fitness_components}, "
                                      f"best aggregate {best} among {log}"))
        for b in tracker.get_best_individuals():
            if abs(agg(b.get_fitness(problem).fitness_components) - best) > 1e-9:
                r.add_violation(Violation(PROP, "MultiObjectiveProgressTracker.get_best_individuals", "not-the-best-so-far", {"mode": mode}, w,
                                          f"multi-objective GP ({mode}): a reported best has aggregate {agg(b.get_fitness(problem).fitness_components)}, best {best}"))
    r.states = st.executions
    r.truncated = st.truncated
    r.samples.append({"multisearch": mode, "runs": st.executions})
    return r


def run_helpers(unit) -> UnitResult:
    """geneticengine.problems.helpers on every population over a small fitness alphabet: best_individual is at least as
    good as every member, is_better is the strict order of the declared direction, sort_population is a permutation
    (by identity, duplicates included) from best to worst."""
    from geneticengine.problems import helpers as H

    r = UnitResult()
    n, mode = unit["n"], unit["mode"]
    rep = StubRepresentation(2)
    inf = float("inf")
    alpha = [0.0, 1.0, 2.0] if n >= 4 else [0.0, 1.0, 2.0, -1.5, inf, -inf]
    for fits in itertools.product(alpha, repeat=n):
        for dup in (False, True) if n >= 2 else (False,):
            table = dict(enumerate(fits))
            if mode in ("max", "min"):
                problem = SingleObjectiveProblem(lambda p: table[p.v], minimize=(mode == "min"))
                good = (lambda v: -v) if mode == "min" else (lambda v: v)
            else:  # two objectives, the second minimised: the documented default aggregate
                if any(abs(v) == inf for v in fits):
                    continue
                problem = MultiObjectiveProblem([False, True], lambda p: [table[p.v], 2.0 - table[p.v] / 2])
                good = lambda v: v - (2.0 - v / 2)  # noqa
            inds = []
            for i in range(n):
                ind = Individual(rep._new(i), rep)
                ind.genotype.v = i
                inds.append(ind)
            if dup:
                inds[-1] = inds[0]
            SequentialEvaluator().evaluate(problem, inds)
            vals = [good(table[i.genotype.v]) for i in inds]
            w = {"unit": unit, "fitness": list(fits), "dup": dup}
            r.executions += 1
            r.count("helper_cases")
            if len(set(vals)) < len(vals):
                r.nontrivial += 1
            try:
                b = H.best_individual(list(inds), problem)
                if all(b is not i for i in inds) or good(table[b.genotype.v]) < max(vals):
                    r.add_violation(Violation(PROP, "helpers.best_individual", "not-the-best", {"mode": mode}, w,
                                              f"{mode} fitness {fits}: best_individual returned the one with fitness {table[b.genotype.v]}"))
                for a, c in itertools.product(range(len(inds)), repeat=2):
                    got = H.is_better(problem, inds[a], inds[c])
                    if bool(got) != (vals[a] > vals[c]):
                        r.add_violation(Violation(PROP, "helpers.is_better", "wrong-order", {"mode": mode, "tie": vals[a] == vals[c]}, w,
                                                  f"{mode}: is_better({table[inds[a].genotype.v]}, {table[inds[c].genotype.v]}) = {got}"))
                        break
                given = list(inds)
                out = H.sort_population(given, problem)
                rest = list(inds)
                ok = len(out) == len(inds)
                for o in out:
                    for j, x in enumerate(rest):
                        if x is o:
                            rest.pop(j)
                            break
                    else:
                        ok = False
                outv = [good(table[o.genotype.v]) for o in out]
                if not ok or rest or any(outv[k] < outv[k + 1] for k in range(len(outv) - 1)):
                    r.add_violation(Violation(PROP, "helpers.sort_population", "not-a-sorted-permutation", {"mode": mode, "dup": dup}, w,
                                              f"{mode} fitness {[table[i.genotype.v] for i in inds]} (same object twice: {dup}): sorted to "
                                              f"{[table[o.genotype.v] for o in out]}"))
                if len(given) != len(inds) or any(x is not y for x, y in zip(given, inds)):
                    r.add_violation(Violation(PROP, "helpers.sort_population", "argument-reordered", {"mode": mode}, w, "sort_population changed the list it was given"))
            except Exception as e:  # noqa
                r.add_violation(Violation(PROP, "helpers", "raised", {"mode": mode, "exc": type(e).__name__}, w, f"{mode} fitness {fits}: {exc_brief(e)}"))
    r.states = len(alpha) ** n
    r.samples.append({"helpers": mode, "population": n})
    return r


def run_unit(unit) -> UnitResult:
    if unit["kind"] == "helpers":
        return run_helpers(unit)
    return {"single": run_single, "multi": run_multi, "search": run_search, "multisearch": run_multisearch}[unit["kind"]](unit)


def finalize(cr):
    cr.require("searches")
    cr.exhaustive = False  # the search units explore the random answers up to a deviation bound
