"""C16 -- elitism keeps the best: top-k selection and monotone best fitness."""
from __future__ import annotations

import itertools

from geneticengine.algorithms.gp.gp import GeneticProgramming
from geneticengine.algorithms.gp.operators.combinators import ParallelStep, SequenceStep
from geneticengine.algorithms.gp.operators.crossover import GenericCrossoverStep
from geneticengine.algorithms.gp.operators.elitism import ElitismStep
from geneticengine.algorithms.gp.operators.mutation import GenericMutationStep
from geneticengine.algorithms.gp.operators.novelty import NoveltyStep
from geneticengine.algorithms.gp.operators.selection import TournamentSelection
from geneticengine.evaluation.budget import EvaluationBudget
from geneticengine.evaluation.recorder import SearchRecorder
from geneticengine.evaluation.sequential import SequentialEvaluator
from geneticengine.evaluation.tracker import SingleObjectiveProgressTracker
from geneticengine.problems import SingleObjectiveProblem
from geneticengine.solutions.individual import Individual

from mc.explorer import ExhaustiveSource, ExploreStats, explore
from mc.harness import UnitResult, Violation
from mc.stubrep import StubRepresentation
from checks.common import exc_brief

PROP = "C16"
TECHNIQUE = (
    "exhaustive enumeration of populations up to size 4-5 over a fitness alphabet (ties, duplicates, the same object "
    "twice, evaluated or not) x optimisation direction x elite count x iterable form, against a raw-fitness reference; "
    "GP runs on a stub representation over weight vectors and sizes with the random answers explored by E1 (deviation "
    "bounded), the elitism slot observed by a recording subclass and the per-generation best by a recorder; the elite share of a ParallelStep / RandomizeParallelStep object whose weights change between generations, against an independent rounded-share reference"
)
RULE = (
    "case = (fitness vector, direction, k, form); oracle: exactly k returned, members of the input, no excluded individual "
    "strictly better than an included one (raw fitness and declared direction, not maximizing_aggregate); runs: best "
    "fitness per generation is monotone whenever an elitism call with target >= 1 was observed; non-trivial = ties / k < n"
)


def units(tier, seed):
    us = []
    for n in range(1, 5 if tier == "quick" else 6):
        for minimize in (False, True):
            us.append({"kind": "topk", "n": n, "minimize": minimize})
    # fitness values at the ends of the float range: infinite, negative and huge aggregates are ordinary fitness values
    for n in (2, 3):
        for minimize in (False, True):
            us.append({"kind": "topk", "n": n, "minimize": minimize, "alpha": "infinite"})
            us.append({"kind": "topk", "n": n, "minimize": minimize, "alpha": "signed-huge"})
    for n in (2, 3):
        us.append({"kind": "topk-multi", "n": n})
    for e, nv in ((1, 0), (2, 1), (1, 2), (3, 0)):
        us.append({"kind": "simplegp", "elitism": e, "novelty": nv, "size": 6})
    for weights in ([1, 1, 2], [1, 0, 3], [5, 5, 90], [1, 3, 0], [2, 1, 1]):
        for size in (3, 4, 5) + ((12, 15) if weights == [5, 5, 90] else ()):
            for minimize in (False, True):
                us.append({"kind": "gp", "weights": weights, "size": size, "minimize": minimize,
                           "max_dev": 2 if tier == "quick" else 3, "max_execs": 400 if tier == "quick" else 8000})
                if weights in ([1, 1, 2], [2, 1, 1]) and size in (4, 5):
                    us.append({"kind": "gp", "weights": weights, "size": size, "minimize": minimize, "order": "elitism-last",
                               "max_dev": 2 if tier == "quick" else 3, "max_execs": 600 if tier == "quick" else 8000})
    # elitism over individuals that it has to evaluate itself through the parallel evaluator (virtual pool: every execution /
    # completion order of the tasks)
    for n in (2, 3, 4):
        for minimize in (False, True):
            us.append({"kind": "topk-parallel", "n": n, "minimize": minimize})
    # an input population larger than the requested size (an over-producing initialiser, a shrinking population size)
    for minimize in (False, True):
        us.append({"kind": "oversized", "minimize": minimize})
    # the elite share follows the weights in force, also when they change on a live step object
    for mode in ("reassign", "setitem", "randomize"):
        for minimize in (False, True):
            us.append({"kind": "reweighted", "mode": mode, "minimize": minimize, "max_dev": 2 if tier == "quick" else 3,
                       "max_execs": 300 if tier == "quick" else 5000})
    return us


def better(a, b, minimize):
    return a < b if minimize else a > b


def run_topk(unit) -> UnitResult:
    r = UnitResult()
    n, minimize = unit["n"], unit["minimize"]
    rep = StubRepresentation(2)
    alpha = {"infinite": [float("-inf"), 0, float("inf")], "signed-huge": [-1e300, -1, 1e300]}.get(unit.get("alpha"), [0, 1, 2])
    for fits in itertools.product(alpha, repeat=n):
        for dup in (False, True):
            if dup and n < 2:
                continue
            for form in ("list", "iterator"):
                for pre_eval in (True, False):
                    for k in range(1, n + 1):
                        problem = SingleObjectiveProblem(lambda p: float(p.v), minimize=minimize)
                        inds = [Individual(rep._new(f), rep) for f in fits]
                        if dup:
                            inds[-1] = inds[0]
                        ev = SequentialEvaluator()
                        # half of the cases: the individuals already carry a fitness for ANOTHER problem (opposite
                        # ranking), stored before the one elitism is asked about
                        other = SingleObjectiveProblem(lambda p: float(p.v), minimize=not minimize)
                        if (k + n + len(form)) % 2 == 0:
                            SequentialEvaluator().evaluate(other, inds)
                        if pre_eval:
                            ev.evaluate(problem, inds)
                        pop = inds if form == "list" else iter(inds)
                        r.executions += 1
                        w = {"unit": unit, "fitness": [i.genotype.v for i in inds], "dup": dup, "form": form, "k": k}
                        try:
                            out = list(ElitismStep().apply(problem, ev, rep, ExhaustiveSource(()), pop, k, 1))
                        except Exception as e:  # noqa
                            r.add_violation(Violation(PROP, "ElitismStep.apply", "raised", {"exc": type(e).__name__, "form": form}, w, exc_brief(e)))
                            continue
                        vals = [i.genotype.v for i in inds]
                        if len(set(vals)) < len(vals) or k < n:
                            r.nontrivial += 1
                        if len(out) != k:
                            r.add_violation(Violation(PROP, "ElitismStep.apply", "wrong-count", {"form": form}, w,
                                                      f"elitism k={k} on fitness {vals} ({form}): returned {len(out)}"))
                            continue
                        if any(all(o is not i for i in inds) for o in out):
                            r.add_violation(Violation(PROP, "ElitismStep.apply", "not-a-member", {}, w, f"elitism returned an individual not in the input"))
                            continue
                        # multiset of excluded = input minus output (by identity, with multiplicity)
                        rest = list(inds)
                        over = False
                        for o in out:
                            for j, x in enumerate(rest):
                                if x is o:
                                    rest.pop(j)
                                    break
                            else:
                                over = True
                        if over:
                            r.add_violation(Violation(PROP, "ElitismStep.apply", "more-copies-than-input", {}, w, f"elitism k={k} on {vals}: returned an individual more often than it occurs"))
                        worst_in = None
                        for o in out:
                            if worst_in is None or better(worst_in, o.genotype.v, minimize):
                                worst_in = o.genotype.v
                        bad = [x.genotype.v for x in rest if better(x.genotype.v, worst_in, minimize)]
                        if bad:
                            r.add_violation(Violation(PROP, "ElitismStep.apply", "excluded-better-than-included", {"minimize": minimize}, w,
                                                      f"elitism k={k} minimize={minimize} on fitness {vals}: kept {[o.genotype.v for o in out]}, "
                                                      f"excluded {bad} is strictly better than kept {worst_in}"))
    r.states = 3 ** n
    r.samples.append({"population_size": n, "minimize": minimize, "fitness_vectors": 3 ** n})
    return r


class Rec(SearchRecorder):
    def __init__(self):
        self.gens: dict = {}

    def register(self, tracker, individual, problem, is_best):
        g = individual.metadata.get("generation")
        self.gens.setdefault(g, []).append(individual.get_fitness(problem).fitness_components[0])


def run_gp(unit) -> UnitResult:
    r = UnitResult()
    size, minimize = unit["size"], unit["minimize"]

    def run(src):
        rep = StubRepresentation(2)
        problem = SingleObjectiveProblem(lambda p: [1.0, 2.0, 0.0][p.v % 3], minimize=minimize)
        rec = Rec()
        tracker = SingleObjectiveProgressTracker(problem, SequentialEvaluator(), recorders=[rec])
        targets = []

        class ObservedElitism(ElitismStep):
            def iterate(self, problem, evaluator, representation, random, population, target_size, generation):
                targets.append((generation, target_size))
                return super().iterate(problem, evaluator, representation, random, population, target_size, generation)

        if unit.get("order") == "elitism-last":
            step = ParallelStep([SequenceStep(TournamentSelection(2), GenericCrossoverStep(1), GenericMutationStep(1)), NoveltyStep(), ObservedElitism()],
                                list(reversed(unit["weights"])))
        else:
            step = ParallelStep([ObservedElitism(), NoveltyStep(), SequenceStep(TournamentSelection(2), GenericCrossoverStep(1), GenericMutationStep(1))],
                                list(unit["weights"]))
        gp = GeneticProgramming(problem, EvaluationBudget(10**9), rep, random=src, tracker=tracker, population_size=size, step=step)
        gens = {"n": 0}

        class Stop(BaseException):
            pass

        def is_done():
            gens["n"] += 1
            if gens["n"] > 4:
                raise Stop()
            return False

        gp.is_done = is_done
        try:
            gp.search()
        except Stop:
            pass
        return rec.gens, targets

    st = ExploreStats()
    for ex in explore(run, max_dev=unit["max_dev"], max_execs=unit["max_execs"], horizon=6000, stats=st):
        r.executions += 1
        if ex.exc is not None or ex.capped:
            r.count("run_raised_or_capped(other properties' business)")
            continue
        gens, targets = ex.result
        elit = {g for g, t in targets if t >= 1}
        r.count("gp_runs")
        w = {"unit": unit, "choices": list(ex.choices)}
        # independent reference: the elitism share of the population; strictly more than half an individual must
        # round to at least one slot in every generation
        share = unit["weights"][0] * size / sum(unit["weights"])
        if share > 0.5:
            produced = sorted(k for k in gens if k is not None and k >= 1)
            lost = [g for g in produced if g not in elit]
            if lost:
                r.add_violation(Violation(PROP, "GeneticProgramming.search", "elite-slot-rounded-to-zero", {}, w,
                                          f"weights {unit['weights']} population {size}: elitism's share is {share:.2f} individuals but it got no slot in generation {lost[0]}"))
        prev = None
        for g in sorted(k for k in gens if k is not None):
            best = (min if minimize else max)(gens[g])
            if prev is not None and g in elit:
                r.count("generations_with_an_elite_slot")
                r.nontrivial += 1
                if better(prev, best, minimize):
                    r.add_violation(Violation(PROP, "GeneticProgramming.search", "best-fitness-got-worse", {"minimize": minimize}, w,
                                              f"weights {unit['weights']} size {size} minimize={minimize}: best fitness {prev} in generation {g - 1} "
                                              f"became {best} in generation {g} although elitism had {[t for gg, t in targets if gg == g]} slot(s)"))
            prev = best
    r.states = st.executions
    r.truncated = st.truncated
    r.samples.append({"weights": unit["weights"], "size": size, "minimize": minimize, "runs": st.executions})
    return r


def run_topk_multi(unit) -> UnitResult:
    """Elitism on a multi-objective problem: ranking by the documented default aggregate (maximised
    components minus minimised ones), computed here from the raw components."""
    from geneticengine.problems import MultiObjectiveProblem

    r = UnitResult()
    n = unit["n"]
    rep = StubRepresentation(2)
    vecs = list(itertools.product([0, 1, 2], repeat=2))
    for mins in ([False, True], [True, False], [False, False], True):
        for fits in itertools.product(vecs, repeat=n):
            for k in range(1, n + 1):
                table = {i: list(map(float, f)) for i, f in enumerate(fits)}
                problem = MultiObjectiveProblem(mins, lambda p, table=table: table[p.v])
                inds = []
                for i in range(n):
                    ind = Individual(rep._new(i), rep)
                    ind.genotype.v = i
                    inds.append(ind)
                r.executions += 1
                mlist = mins if isinstance(mins, list) else [mins, mins]
                agg = lambda v: sum(-x if m else x for x, m in zip(v, mlist))  # noqa
                w = {"unit": unit, "fitness": [list(f) for f in fits], "minimize": mins, "k": k}
                try:
                    out = list(ElitismStep().apply(problem, SequentialEvaluator(), rep, ExhaustiveSource(()), list(inds), k, 1))
                except Exception as e:  # noqa
                    r.add_violation(Violation(PROP, "ElitismStep.apply", "raised", {"exc": type(e).__name__, "form": "list"}, w, exc_brief(e)))
                    continue
                r.nontrivial += 1
                if len(out) != k:
                    r.add_violation(Violation(PROP, "ElitismStep.apply", "wrong-count", {"form": "list"}, w, f"multi-objective elitism k={k}: returned {len(out)}"))
                    continue
                kept = [agg(fits[o.genotype.v]) for o in out]
                rest = [agg(fits[i.genotype.v]) for i in inds if all(i is not o for o in out)]
                if rest and max(rest) > min(kept) + 1e-12:
                    r.add_violation(Violation(PROP, "ElitismStep.apply", "excluded-better-than-included", {"minimize": "multi"}, w,
                                              f"multi-objective elitism k={k} minimise {mins} on components {fits}: kept aggregates {kept}, excluded {rest}"))
    r.states = len(vecs) ** n
    r.samples.append({"multi_objective_population": n})
    return r


def run_simplegp(unit) -> UnitResult:
    """SimpleGP(elitism=e, novelty=n): the elitism step really gets e slots in every generation and the best
    fitness is monotone."""
    import geml.simplegp as SG
    from mc import grammars as G

    r = UnitResult()
    e, nv, size = unit["elitism"], unit["novelty"], unit["size"]
    b = G.build(G.family_shapes()[0])
    targets = []
    real = SG.ElitismStep

    class ObservedElitism(real):  # type: ignore
        def iterate(self, problem, evaluator, representation, random, population, target_size, generation):
            targets.append((generation, target_size))
            return super().iterate(problem, evaluator, representation, random, population, target_size, generation)

    try:
        g = b.extract()
        for minimize in (False, True):
            for seed in (0, 1, 2):
                targets.clear()
                SG.ElitismStep = ObservedElitism
                try:
                    rec = Rec()
                    sgp = SG.SimpleGP(lambda p: float(len(repr(p)) % 7), g, minimize=minimize, seed=seed, population_size=size, elitism=e,
                                      novelty=nv, max_evaluations=size * 5, max_depth=4, mutation_probability=0.9, crossover_probability=0.5)
                finally:
                    SG.ElitismStep = real
                sgp.gp.tracker.recorders.append(rec)
                sgp.search()
                r.executions += 1
                r.count("gp_runs")
                w = {"unit": unit, "seed": seed, "minimize": minimize}
                gens = sorted(k for k in rec.gens if k is not None)
                for gnum in [x for x in gens if x >= 1]:
                    got = [t for gg, t in targets if gg == gnum]
                    if sum(got) != e:
                        r.add_violation(Violation(PROP, "SimpleGP", "elite-slots-not-as-requested", {}, w,
                                                  f"SimpleGP(elitism={e}, novelty={nv}, population_size={size}): generation {gnum} gave elitism {got} slot(s)"))
                        break
                prev = None
                for gnum in gens:
                    best = (min if minimize else max)(rec.gens[gnum])
                    if prev is not None and e >= 1:
                        r.count("generations_with_an_elite_slot")
                        r.nontrivial += 1
                        if better(prev, best, minimize):
                            r.add_violation(Violation(PROP, "SimpleGP", "best-fitness-got-worse", {"minimize": minimize}, w,
                                                      f"SimpleGP(elitism={e}, novelty={nv}): best {prev} in generation {gnum - 1} became {best}"))
                            break
                    prev = best
        r.states = 6
        r.samples.append({"simplegp": {"elitism": e, "novelty": nv, "population_size": size}})
    finally:
        SG.ElitismStep = real
        b.cleanup()
    return r


REWEIGHTS = [[0, 1, 1, 0], [2, 1, 1, 0], [1, 0, 0, 3], [5, 5, 90, 0], [3, 0, 1, 0], [0, 0, 1, 1]]


def run_reweighted(unit) -> UnitResult:
    import math

    from geneticengine.algorithms.gp.parameterless import RandomizeParallelStep

    r = UnitResult()
    mode, minimize = unit["mode"], unit["minimize"]
    pairs = list(itertools.permutations(REWEIGHTS, 2)) if mode != "randomize" else [(REWEIGHTS[0], None), (REWEIGHTS[1], None)]
    for w1, w2 in pairs:
        for n in (3, 4, 6, 20):
            def run(src, w1=w1, w2=w2, n=n):
                rep = StubRepresentation(2)
                problem = SingleObjectiveProblem(lambda p: float(p.v), minimize=minimize)
                subs = [ElitismStep(), NoveltyStep(), GenericMutationStep(1), SequenceStep(TournamentSelection(2), GenericCrossoverStep(1))]
                step = (RandomizeParallelStep if mode == "randomize" else ParallelStep)(subs, list(w1))
                log = []
                for gen in (1, 2, 3):
                    ev = SequentialEvaluator()
                    inds = [Individual(rep._new((i + gen) % 3), rep) for i in range(n)]
                    weights = [float(x) for x in step.weights]
                    out = list(step.apply(problem, ev, rep, src, inds, n, gen))
                    ev.evaluate(problem, out)
                    # input individuals that are in the output, each counted once (another slice may return an elite again)
                    surv_objs = []
                    for o in out:
                        if any(o is i for i in inds) and all(o is not x for x in surv_objs):
                            surv_objs.append(o)
                    survivors = [o.genotype.v for o in surv_objs]
                    log.append((weights, [i.genotype.v for i in inds], survivors, len(out)))
                    if gen == 1 and mode == "reassign":
                        step.weights = list(w2)
                    elif gen == 1 and mode == "setitem":
                        for i, x in enumerate(w2):
                            step.weights[i] = x
                return log

            st = ExploreStats()
            for ex in explore(run, max_dev=unit["max_dev"], max_execs=unit["max_execs"], horizon=6000, stats=st):
                r.executions += 1
                if ex.exc is not None or ex.capped:
                    r.count("run_raised_or_capped(other properties' business)")
                    continue
                w = {"unit": unit, "w1": w1, "w2": w2, "n": n, "choices": list(ex.choices)}
                r.count("reweighted_runs")
                for gen, (weights, fits, survivors, size) in enumerate(ex.result, start=1):
                    share = weights[0] * n / sum(weights)
                    g = max(0, math.ceil(share - 0.5 - 1e-9))  # slots the rounded share guarantees to elitism
                    if g == 0:
                        continue
                    r.nontrivial += 1
                    r.count("generations_with_an_elite_slot")
                    top = sorted(fits, reverse=not minimize)[:g]
                    kept = sorted(survivors, reverse=not minimize)[:g]
                    if kept != top:
                        r.add_violation(Violation(PROP, "ParallelStep.apply", "elite-share-ignores-current-weights", {"mode": mode, "generation": gen}, w,
                                                  f"weights in force {weights} on {n} individuals (generation {gen} of one step object, mode {mode}): elitism's share "
                                                  f"guarantees {g} slot(s), input fitness {fits}, surviving input individuals {survivors}"))
                        break
            r.capped += st.capped_paths
    r.states = len(pairs)
    r.samples.append({"reweighted": mode, "minimize": minimize})
    return r


def run_oversized(unit) -> UnitResult:
    """ParallelStep / ElitismStep asked for k individuals out of n > k: the elite is taken from the WHOLE input."""
    import math

    r = UnitResult()
    minimize = unit["minimize"]
    rep = StubRepresentation(2)
    for weights in ([1, 1, 1], [2, 1, 1], [1, 0, 3], [3, 1, 0], [5, 5, 90]):
        for n in (3, 4, 6, 10, 25):
            for k in sorted({1, 2, 3, n // 2, n - 1} - {0}):
                if k >= n:
                    continue
                for order in ("best-last", "best-first", "best-middle"):
                    problem = SingleObjectiveProblem(lambda p: float(p.v), minimize=minimize)
                    vals = list(range(n))  # distinct fitness values
                    goodness = [(-v if minimize else v) for v in vals]
                    ranked = sorted(range(n), key=lambda i: goodness[i])  # worst .. best
                    if order == "best-first":
                        ranked = ranked[::-1]
                    elif order == "best-middle":
                        ranked = ranked[: n // 2][::-1] + ranked[n // 2:][::-1]
                    inds = []
                    for i in ranked:
                        ind = Individual(rep._new(0), rep)
                        ind.genotype.v = vals[i]
                        inds.append(ind)
                    ev = SequentialEvaluator()
                    for form in ("list", "iterator"):
                        step = ParallelStep([ElitismStep(), NoveltyStep(), GenericMutationStep(1)], list(weights))
                        w = {"unit": unit, "weights": weights, "n": n, "k": k, "order": order, "form": form}
                        r.executions += 1
                        try:
                            out = list(step.apply(problem, ev, rep, ExhaustiveSource(()), list(inds) if form == "list" else iter(list(inds)), k, 1))
                        except Exception as e:  # noqa
                            r.count("run_raised_or_capped(other properties' business)")
                            continue
                        share = weights[0] * k / sum(weights)
                        g = max(0, math.ceil(share - 0.5 - 1e-9))
                        if g == 0:
                            continue
                        r.nontrivial += 1
                        r.count("oversized_cases_with_an_elite_slot")
                        surv = []
                        for o in out:
                            if any(o is i for i in inds) and all(o is not x for x in surv):
                                surv.append(o)
                        kept = sorted((o.genotype.v for o in surv), reverse=not minimize)[:g]
                        top = sorted(vals, reverse=not minimize)[:g]
                        if kept != top:
                            r.add_violation(Violation(PROP, "ParallelStep.apply", "elite-not-from-whole-input", {"order": order, "form": form}, w,
                                                      f"weights {weights}: {k} requested out of {n} individuals ({order}, {form}): elitism's share guarantees {g} "
                                                      f"slot(s); best of the input {top}, surviving input individuals {sorted(o.genotype.v for o in surv)}"))
    r.states = 5
    r.samples.append({"oversized": True, "minimize": minimize})
    return r


def run_topk_parallel(unit) -> UnitResult:
    import pathos.multiprocessing as pm

    from geneticengine.evaluation.parallel import ParallelEvaluator
    from checks.C13 import VirtualPool

    r = UnitResult()
    n, minimize = unit["n"], unit["minimize"]
    real_pool = pm.ProcessingPool
    try:
        for fits in itertools.permutations(range(n)):
            for k in range(1, n):
                def run(src, fits=fits, k=k):
                    rep = StubRepresentation(n)
                    problem = SingleObjectiveProblem(lambda p: float(p.v), minimize=minimize)
                    inds = [Individual(rep._new(f), rep) for f in fits]
                    VirtualPool.source = src
                    pm.ProcessingPool = VirtualPool
                    out = list(ElitismStep().apply(problem, ParallelEvaluator(), rep, src, list(inds), k, 1))
                    return [o.genotype.v for o in out], [(i.genotype.v, i.get_fitness(problem).fitness_components[0]) for i in inds if i.has_fitness(problem)]

                st = ExploreStats()
                for ex in explore(run, max_execs=200, horizon=200, stats=st):
                    r.executions += 1
                    w = {"unit": unit, "fitness": list(fits), "k": k, "choices": list(ex.choices)}
                    if ex.exc is not None or ex.capped:
                        r.count("run_raised_or_capped(other properties' business)")
                        continue
                    kept, seen = ex.result
                    r.count("parallel_elitism_cases")
                    r.nontrivial += 1
                    top = sorted(fits, reverse=not minimize)[:k]
                    if sorted(kept, reverse=not minimize) != top:
                        r.add_violation(Violation(PROP, "ElitismStep.apply", "excluded-better-than-included", {"minimize": minimize, "evaluator": "parallel"}, w,
                                                  f"elitism k={k} over unevaluated individuals {list(fits)} with the parallel evaluator: kept {kept}, the best are {top} "
                                                  f"(fitness attached: {seen})"))
    finally:
        pm.ProcessingPool = real_pool
    r.states = 1
    r.samples.append({"topk_parallel": n, "minimize": minimize})
    return r


def run_unit(unit) -> UnitResult:
    if unit["kind"] == "topk-parallel":
        return run_topk_parallel(unit)
    if unit["kind"] == "oversized":
        return run_oversized(unit)
    if unit["kind"] == "reweighted":
        return run_reweighted(unit)
    return {"topk": run_topk, "gp": run_gp, "topk-multi": run_topk_multi, "simplegp": run_simplegp}[unit["kind"]](unit)


def finalize(cr):
    cr.require("gp_runs")
    cr.require("generations_with_an_elite_slot")
    cr.exhaustive = False
