"""C13 -- fitness is computed from the phenotype, once, and counted honestly."""
from __future__ import annotations

import itertools
import os
import tempfile

import dill

from geneticengine.algorithms.gp.gp import GeneticProgramming, default_generic_programming_step
from geneticengine.algorithms.gp.operators.combinators import ParallelStep, SequenceStep
from geneticengine.algorithms.gp.operators.crossover import GenericCrossoverStep
from geneticengine.algorithms.gp.operators.elitism import ElitismStep
from geneticengine.algorithms.gp.operators.mutation import GenericMutationStep
from geneticengine.algorithms.gp.operators.novelty import NoveltyStep
from geneticengine.algorithms.gp.operators.selection import TournamentSelection
from geneticengine.evaluation.budget import EvaluationBudget
from geneticengine.evaluation.parallel import ParallelEvaluator
from geneticengine.evaluation.sequential import SequentialEvaluator
from geneticengine.evaluation.tracker import SingleObjectiveProgressTracker
from geneticengine.problems import MultiObjectiveProblem, SingleObjectiveProblem
from geneticengine.solutions.individual import Individual

from mc.explorer import ExhaustiveSource, ExploreStats, explore
from mc.harness import UnitResult, Violation
from mc.stubrep import StubRepresentation
from checks.common import exc_brief, is_library_error

PROP = "C13"
TECHNIQUE = (
    "exhaustive enumeration of populations over an individual alphabet {new, evaluated for p, evaluated for q, same "
    "object twice} x problems x sequences of <=3 evaluate / evaluate_async calls x evaluator (sequential, parallel on a "
    "virtual pool whose every task execution / completion order is enumerated by E1, parallel on the real pool as "
    "conformance), against an append-only invocation log; GP runs whose steps re-present individuals; every history of three Population constructions over two problems / trackers on shared individual objects (new, evaluated for one problem, stamped by an earlier run)"
)
RULE = (
    "history = (population over the alphabet, call sequence, evaluator, schedule); oracle: recorded fitness == f(program), "
    "aggregate by direction, at most one invocation per (individual, problem), counter == invocations, parallel == "
    "sequential; non-trivial = population mixing evaluated and new individuals or containing a duplicate"
)

TABLE = [5.0, 7.0, 6.0, 9.0]
KINDS = ["new", "has_p", "has_q", "dup"]


class VirtualPool:
    """Stands in for pathos' ProcessingPool: tasks run on dill round-tripped copies (as in a worker
    process) in an order chosen by the explorer; map/imap are input-ordered, uimap is completion-ordered."""

    source = None  # ExhaustiveSource deciding the schedule
    created: list = []

    def __init__(self, nodes=None, *a, **k):
        if nodes is not None and nodes < 1:
            raise ValueError("Number of processes must be at least 1")
        self.nodes = nodes
        VirtualPool.created.append(nodes)

    def __enter__(self):
        return self

    def __exit__(self, *a):
        return False

    def _run(self, f, items):
        items = list(items)
        order = list(range(len(items)))
        src = VirtualPool.source
        sched = []
        while order:
            i = src.randint(0, len(order) - 1) if (src is not None and len(order) > 1) else 0
            sched.append(order.pop(i))
        results = {}
        for idx in sched:
            f2, arg = dill.loads(dill.dumps((f, items[idx])))
            results[idx] = f2(arg)
        return sched, results

    def map(self, f, items):
        sched, res = self._run(f, items)
        return [res[i] for i in range(len(res))]

    def imap(self, f, items):
        return iter(self.map(f, items))

    def uimap(self, f, items):
        sched, res = self._run(f, items)
        return iter([res[i] for i in sched])

    def amap(self, f, items):
        out = self.map(f, items)

        class R:
            def get(self, timeout=None):
                return out

        return R()

    def close(self):
        pass

    def join(self):
        pass

    def clear(self):
        pass


def make_ff(path):
    def ff(p):
        fd = os.open(path, os.O_WRONLY | os.O_APPEND | os.O_CREAT)
        os.write(fd, f"{p.v}\n".encode())
        os.close(fd)
        return [5.0, 7.0, 6.0, 9.0][p.v % 4]

    return ff


def read_log(path):
    if not os.path.exists(path):
        return []
    with open(path) as f:
        return [int(x) for x in f.read().split()]


def units(tier, seed):
    us = []
    sizes = (0, 1, 2, 3) if tier == "quick" else (0, 1, 2, 3, 4)
    for n in sizes:
        for pop in itertools.product(KINDS, repeat=n):
            if n and pop[0] == "dup":
                continue
            for ev in ("seq", "vpar"):
                us.append({"kind": "pop", "pop": list(pop), "evaluator": ev, "calls": 2 if tier == "quick" else 3})
    for n in (1, 2):
        for pop in itertools.product(KINDS, repeat=n):
            if pop[0] == "dup":
                continue
            for ev in ("seq", "vpar"):
                us.append({"kind": "pop", "pop": list(pop), "evaluator": ev, "calls": 3, "plan": "pq"})
    real = [[], ["new"], ["new", "new"], ["new", "has_p"], ["has_p", "new", "new"], ["new", "dup", "new"], ["has_q", "new"], ["has_p"],
            ["new", "new", "new"]]
    for pop in real:
        us.append({"kind": "pop", "pop": pop, "evaluator": "rpar", "calls": 2})
    for mode in ("single-max", "single-min", "multi-FT", "multi-boolT", "multi-agg"):
        us.append({"kind": "aggregate", "mode": mode})
    us.append({"kind": "trackers"})
    # a multi-objective problem that learns its number of objectives at its first evaluation (minimize given as one bool)
    for ev in ("seq", "vpar"):
        for n in (1, 2, 3):
            for mini in (False, True):
                us.append({"kind": "lazy-multi", "evaluator": ev, "n": n, "minimize": mini})
    # Population objects over two problems / trackers sharing individuals, in every order of three constructions
    for n in (1, 2, 3):
        for pop in itertools.product(["new", "has_p", "has_q", "stamped"], repeat=n):
            us.append({"kind": "populations", "pop": list(pop)})
    for step in ("default", "elitism-heavy", "selection-only", "mutation05", "mutation-then-tournament", "novelty-then-tournament"):
        for ev in ("seq", "vpar"):
            us.append({"kind": "gp", "step": step, "evaluator": ev, "max_dev": 1 if tier == "quick" else 2,
                       "max_execs": 300 if tier == "quick" else 5000})
    return us


def build_pop(pop_kinds, rep, p, q):
    inds = []
    for i, k in enumerate(pop_kinds):
        if k == "dup" and inds:
            inds.append(inds[-1])
            continue
        ind = Individual(rep._new(i % 4), rep)
        inds.append(ind)
    pre = SequentialEvaluator()
    for ind, k in zip(inds, pop_kinds):
        if k == "has_p":
            pre.evaluate(p, [ind])
        elif k == "has_q":
            pre.evaluate(q, [ind])
    return inds


def run_pop(unit) -> UnitResult:
    import pathos.multiprocessing as pm

    r = UnitResult()
    tmp = tempfile.mkdtemp(prefix="verif_c13_")
    real_pool = pm.ProcessingPool
    try:
        def run(src):
            path_p = os.path.join(tmp, "p.log")
            path_q = os.path.join(tmp, "q.log")
            for pth in (path_p, path_q):
                if os.path.exists(pth):
                    os.remove(pth)
            rep = StubRepresentation(3)
            p = SingleObjectiveProblem(make_ff(path_p), minimize=False)
            q = SingleObjectiveProblem(make_ff(path_q), minimize=True)
            inds = build_pop(unit["pop"], rep, p, q)
            pre_p, pre_q = len(read_log(path_p)), len(read_log(path_q))
            had = {(id(i), "p"): i.has_fitness(p) for i in inds}
            had.update({(id(i), "q"): i.has_fitness(q) for i in inds})
            before = {(id(i), "p"): (i.get_fitness(p) if i.has_fitness(p) else None) for i in inds}
            if unit["evaluator"] == "seq":
                ev = SequentialEvaluator()
            else:
                ev = ParallelEvaluator()
                if unit["evaluator"] == "vpar":
                    VirtualPool.source = src
                    pm.ProcessingPool = VirtualPool
                else:
                    pm.ProcessingPool = real_pool
            obs = []
            plan = [("evaluate", p), ("async", p), ("evaluate", q)][: unit["calls"]]
            if unit.get("plan") == "pq":  # one evaluator object serving two problems in turn
                plan = [("evaluate", p), ("evaluate", q), ("async", p)]
            for how, prob in plan:
                c0 = ev.number_of_evaluations()
                l0 = len(read_log(path_p)) + len(read_log(path_q))
                if how == "evaluate":
                    ev.evaluate(prob, inds)
                    yielded = None
                else:
                    yielded = list(ev.evaluate_async(prob, inds))
                obs.append((how, "p" if prob is p else "q", ev.number_of_evaluations() - c0,
                            len(read_log(path_p)) + len(read_log(path_q)) - l0, yielded))
            return inds, p, q, had, before, obs, read_log(path_p)[pre_p:], read_log(path_q)[pre_q:], ev

        st = ExploreStats()
        for ex in explore(run, max_execs=2000, stats=st, horizon=200):
            r.executions += 1
            w = {"unit": unit, "choices": list(ex.choices)}
            site = {"seq": "SequentialEvaluator", "vpar": "ParallelEvaluator", "rpar": "ParallelEvaluator"}[unit["evaluator"]]
            feat = {"evaluator": unit["evaluator"], "empty": len(unit["pop"]) == 0,
                    "has_evaluated": any(k in ("has_p",) for k in unit["pop"]), "has_dup": "dup" in unit["pop"]}
            if ex.exc is not None:
                r.add_violation(Violation(PROP, site + ".evaluate", "raised", dict(feat, exc=type(ex.exc).__name__), w,
                                          f"{unit['evaluator']} population {unit['pop']}: {exc_brief(ex.exc)}"))
                continue
            inds, p, q, had, before, obs, log_p, log_q, ev = ex.result
            if len(set(unit["pop"])) > 1 or "dup" in unit["pop"]:
                r.nontrivial += 1
            r.count("histories")
            distinct = []
            for i in inds:
                if all(i is not j for j in distinct):
                    distinct.append(i)
            # values and pairing
            for i in distinct:
                for prob, name in ((p, "p"), (q, "q")):
                    if i.has_fitness(prob):
                        f = i.get_fitness(prob)
                        want = TABLE[i.genotype.v % 4]
                        if f.fitness_components != [want] or f.maximizing_aggregate != (-want if prob is q else want):
                            r.add_violation(Violation(PROP, site + ".evaluate", "wrong-fitness-or-pairing", feat, w,
                                                      f"{unit['evaluator']} {unit['pop']}: individual v={i.genotype.v} has {f} for problem {name}, f(program)={want}"))
                b = before[(id(i), "p")]
                if b is not None and i.get_fitness(p) is not b and i.get_fitness(p) != b:
                    r.add_violation(Violation(PROP, site + ".evaluate", "cached-fitness-changed", feat, w, f"{unit['pop']}: {b} -> {i.get_fitness(p)}"))
            # at most once per (individual, problem): expected invocations = distinct individuals lacking the fitness
            exp_p = sorted(i.genotype.v for i in distinct if not had[(id(i), "p")])
            exp_q = sorted(i.genotype.v for i in distinct if not had[(id(i), "q")]) if len(obs) >= 3 else []
            if sorted(log_p) != exp_p or sorted(log_q) != exp_q:
                r.add_violation(Violation(PROP, site + ".evaluate", "invocations-not-once-per-unevaluated-individual", feat, w,
                                          f"{unit['evaluator']} population {unit['pop']} calls {[o[:2] for o in obs]}: fitness function invoked for "
                                          f"{sorted(log_p)} (p) {sorted(log_q)} (q), expected {exp_p} / {exp_q}"))
            for how, name, dc, dl, yielded in obs:
                if dc != dl:
                    r.add_violation(Violation(PROP, site + ".number_of_evaluations", "counter-differs-from-invocations", feat, w,
                                              f"{unit['evaluator']} {unit['pop']} {how}({name}): counter +{dc}, invocations +{dl}"))
                if yielded is not None and [id(x) for x in yielded] != [id(x) for x in inds]:
                    r.add_violation(Violation(PROP, site + ".evaluate_async", "yielded-individuals-differ", feat, w,
                                              f"{unit['evaluator']} {unit['pop']}: evaluate_async yielded {len(yielded)} of {len(inds)} individuals / other order"))
        r.states = st.executions
        r.samples.append({"population": unit["pop"], "evaluator": unit["evaluator"], "schedules": st.executions})
    finally:
        pm.ProcessingPool = real_pool
        import shutil

        shutil.rmtree(tmp, ignore_errors=True)
    return r


def run_aggregate(unit) -> UnitResult:
    r = UnitResult()
    mode = unit["mode"]
    # one evaluation = one invocation of the fitness function, and the aggregate belongs to the components recorded
    # (the fitness function below answers differently at every call, so a second call is visible in the values)
    for evaluator in ("seq", "direct"):
        calls = []

        def counting(p):
            calls.append(len(calls))
            base = float(len(calls))
            return base if mode.startswith("single") else [base, 10 * base]

        if mode == "single-max":
            pr0 = SingleObjectiveProblem(counting, minimize=False)
        elif mode == "single-min":
            pr0 = SingleObjectiveProblem(counting, minimize=True)
        elif mode == "multi-FT":
            pr0 = MultiObjectiveProblem([False, True], counting)
        elif mode == "multi-boolT":
            pr0 = MultiObjectiveProblem(True, counting)
        else:
            pr0 = MultiObjectiveProblem([False, False], counting, aggregate_fitness=lambda xs: xs[0] * 10 + xs[1])
        rep0 = StubRepresentation(2)
        inds0 = [Individual(rep0._new(i), rep0) for i in range(3)]
        ev0 = SequentialEvaluator()
        if evaluator == "seq":
            ev0.evaluate(pr0, inds0)
            fits = [i.get_fitness(pr0) for i in inds0]
            counted = ev0.number_of_evaluations()
        else:
            fits = [pr0.evaluate(i.get_phenotype()) for i in inds0]
            counted = 3
        r.executions += 3
        r.count("invocation_counts_checked")
        w0 = {"unit": unit, "evaluator": evaluator}
        if len(calls) != counted:
            r.add_violation(Violation(PROP, "Problem.evaluate", "fitness-function-invoked-more-than-once", {"mode": mode}, w0,
                                      f"{mode}: {counted} evaluations invoked the fitness function {len(calls)} times"))
        for f in fits:
            comps = list(f.fitness_components)
            if mode == "single-max":
                want = comps[0]
            elif mode == "single-min":
                want = -comps[0]
            elif mode == "multi-FT":
                want = comps[0] - comps[1]
            elif mode == "multi-boolT":
                want = -comps[0] - comps[1]
            else:
                want = comps[0] * 10 + comps[1]
            if abs(f.maximizing_aggregate - want) > 1e-9:
                r.add_violation(Violation(PROP, "Problem.evaluate", "aggregate-not-from-recorded-components", {"mode": mode}, w0,
                                          f"{mode}: recorded components {comps} but aggregate {f.maximizing_aggregate} (expected {want})"))
    if mode.startswith("multi"):
        # a stateful scorer that returns its own (reused) list object: what was recorded for an earlier individual must
        # not change when a later one is evaluated
        scores = [0.0, 0.0]

        def reusing(p):
            scores[0] = float(p.v)
            scores[1] = float(10 * p.v)
            return scores

        prr = MultiObjectiveProblem([False, True], reusing) if mode != "multi-boolT" else MultiObjectiveProblem(True, reusing)
        rep1 = StubRepresentation(3)
        inds1 = [Individual(rep1._new(i + 1), rep1) for i in range(3)]
        SequentialEvaluator().evaluate(prr, inds1)
        r.executions += 3
        for ind in inds1:
            comps = list(ind.get_fitness(prr).fitness_components)
            if comps != [float(ind.genotype.v), float(10 * ind.genotype.v)]:
                r.add_violation(Violation(PROP, "Problem.evaluate", "recorded-fitness-changed-later", {"mode": mode}, {"unit": unit},
                                          f"{mode}: individual v={ind.genotype.v} is recorded with components {comps} after later individuals were evaluated "
                                          f"(the fitness function reuses one list object)"))
                break
    for vals in itertools.product([-1.0, 0.0, 2.0, 0.5], repeat=2):
        if mode == "single-max":
            pr = SingleObjectiveProblem(lambda p: vals[0], minimize=False)
            want, comps = vals[0], [vals[0]]
        elif mode == "single-min":
            pr = SingleObjectiveProblem(lambda p: vals[0], minimize=True)
            want, comps = -vals[0], [vals[0]]
        elif mode == "multi-FT":
            pr = MultiObjectiveProblem([False, True], lambda p: list(vals))
            want, comps = vals[0] - vals[1], list(vals)
        elif mode == "multi-boolT":
            pr = MultiObjectiveProblem(True, lambda p: list(vals))
            want, comps = -vals[0] - vals[1], list(vals)
        else:
            pr = MultiObjectiveProblem([False, False], lambda p: list(vals), aggregate_fitness=lambda xs: xs[0] * 10 + xs[1])
            want, comps = vals[0] * 10 + vals[1], list(vals)
        f = pr.evaluate(None)
        r.executions += 1
        r.nontrivial += 1
        if abs(f.maximizing_aggregate - want) > 1e-12 or list(f.fitness_components) != comps:
            r.add_violation(Violation(PROP, "Problem.evaluate", "aggregate-direction", {"mode": mode}, {"unit": unit, "values": list(vals)},
                                      f"{mode}: values {vals} -> {f}, expected aggregate {want}"))
    r.states = 16
    r.samples.append({"aggregate_mode": mode})
    return r


def run_gp(unit) -> UnitResult:
    import pathos.multiprocessing as pm

    r = UnitResult()
    real_pool = pm.ProcessingPool
    tmp = tempfile.mkdtemp(prefix="verif_c13g_")
    try:
        def run(src):
            rep = StubRepresentation(3)
            path = os.path.join(tmp, "gp.log")
            if os.path.exists(path):
                os.remove(path)
            problem = SingleObjectiveProblem(make_ff(path))  # file-backed log: also written by dill copies
            seen = []
            seen_objs = []

            base = SequentialEvaluator if unit["evaluator"] == "seq" else ParallelEvaluator

            class Logging(base):  # type: ignore
                def eval_single(self, problem, individual):
                    seen_objs.append(individual)  # keep the object alive: ids of collected objects are reused
                    seen.append(id(individual))
                    return super().eval_single(problem, individual)

            ev = Logging()
            if unit["evaluator"] == "vpar":
                VirtualPool.source = None  # FIFO schedule inside GP runs; schedules are enumerated in the 'pop' units
                pm.ProcessingPool = VirtualPool
            tracker = SingleObjectiveProgressTracker(problem, ev)
            step = {
                "default": default_generic_programming_step(),
                "elitism-heavy": ParallelStep([ElitismStep(), NoveltyStep()], [3, 1]),
                "selection-only": TournamentSelection(2, with_replacement=True),
                "mutation05": SequenceStep(TournamentSelection(2, with_replacement=True), GenericMutationStep(0.5)),
                "mutation-then-tournament": SequenceStep(GenericMutationStep(1), TournamentSelection(2, with_replacement=True)),
                "novelty-then-tournament": SequenceStep(NoveltyStep(), TournamentSelection(3, with_replacement=True)),
            }[unit["step"]]
            gp = GeneticProgramming(problem, EvaluationBudget(9), rep, random=src, tracker=tracker, population_size=4, step=step)
            keep = []
            orig = tracker.evaluate_single

            def ev_single(ind):
                keep.append(ind)  # keep every individual alive so ids stay unique
                return orig(ind)

            tracker.evaluate_single = ev_single
            gens = {"n": 0}
            import geneticengine.algorithms.gp.gp as gpmod

            class Stop(BaseException):
                pass

            old_is_done = gp.is_done

            def is_done():
                gens["n"] += 1
                if gens["n"] > 4:
                    raise Stop()
                return old_is_done()

            gp.is_done = is_done
            try:
                gp.search()
            except Stop:
                pass
            return read_log(path), seen, ev.number_of_evaluations(), keep

        st = ExploreStats()
        for ex in explore(run, max_dev=unit["max_dev"], max_execs=unit["max_execs"], horizon=4000, stats=st):
            r.executions += 1
            if ex.capped or ex.exc is not None:
                r.count("gp_run_raised_or_capped")
                continue
            calls, seen, count, keep = ex.result
            r.count("gp_runs")
            w = {"unit": unit, "choices": list(ex.choices)}
            feat = {"evaluator": unit["evaluator"], "step": unit["step"]}
            if count != len(calls):
                r.add_violation(Violation(PROP, "Evaluator.number_of_evaluations", "counter-differs-from-invocations", feat, w,
                                          f"GP {unit['step']} with {unit['evaluator']}: counter {count}, fitness invocations {len(calls)}"))
            # eval_single is only an observation point: an evaluator that does not route through it is not held to it
            if seen and len(seen) != len(set(seen)):
                r.nontrivial += 1
                r.add_violation(Violation(PROP, "GeneticProgramming.search", "individual-evaluated-twice", feat, w,
                                          f"GP {unit['step']} with {unit['evaluator']}: {len(seen) - len(set(seen))} individuals were evaluated more than once"))
            else:
                r.nontrivial += 1
        r.states = st.executions
        r.truncated = st.truncated
        r.samples.append({"gp_step": unit["step"], "evaluator": unit["evaluator"], "runs": st.executions})
    finally:
        pm.ProcessingPool = real_pool
        import shutil

        shutil.rmtree(tmp, ignore_errors=True)
    return r


def run_trackers(unit) -> UnitResult:
    """Trackers built the short way (no explicit evaluator) count their own evaluations only."""
    from geneticengine.evaluation.tracker import MultiObjectiveProgressTracker

    r = UnitResult()
    rep = StubRepresentation(3)
    for kind in ("single", "multi"):
        counts = []
        for k in range(3):
            calls = []

            def ff(p):
                calls.append(p.v)
                return TABLE[p.v % 4] if kind == "single" else [TABLE[p.v % 4], 1.0]

            if kind == "single":
                problem = SingleObjectiveProblem(ff)
                tr = SingleObjectiveProgressTracker(problem)
            else:
                problem = MultiObjectiveProblem([False, True], ff)
                tr = MultiObjectiveProgressTracker(problem)
            inds = [Individual(rep._new(i % 4), rep) for i in range(2 + k)]
            tr.evaluate(inds)
            r.executions += len(inds)
            r.nontrivial += 1
            r.count("histories")
            if tr.get_number_evaluations() != len(calls):
                r.add_violation(Violation(PROP, "ProgressTracker.get_number_evaluations", "counter-differs-from-invocations",
                                          {"evaluator": "default-of-tracker", "tracker_number": min(k, 1)}, {"unit": unit, "kind": kind, "tracker": k},
                                          f"{kind}-objective tracker number {k + 1} built without an evaluator: counter {tr.get_number_evaluations()}, "
                                          f"its fitness function was invoked {len(calls)} times"))
    r.states = 6
    r.samples.append({"default_trackers": 6})
    return r


def run_populations(unit) -> UnitResult:
    """Population evaluates every individual it is given through its tracker: histories of three Population
    constructions over two problems (each with its own tracker) on shared individual objects."""
    from geneticengine.algorithms.gp.population import Population

    r = UnitResult()
    for plan in itertools.product("PQ", repeat=3):
        rep = StubRepresentation(3)
        calls = {"P": [], "Q": []}
        probs = {"P": SingleObjectiveProblem(lambda g: (calls["P"].append(g.v), TABLE[g.v % 4])[1], minimize=False),
                 "Q": SingleObjectiveProblem(lambda g: (calls["Q"].append(g.v), TABLE[g.v % 4] + 100.0)[1], minimize=True)}
        trackers = {k: SingleObjectiveProgressTracker(probs[k], SequentialEvaluator()) for k in "PQ"}
        inds = []
        pre = SequentialEvaluator()
        pre_calls = {"P": 0, "Q": 0}
        for i, k in enumerate(unit["pop"]):
            ind = Individual(rep._new(i), rep)
            if k == "has_p":
                pre.evaluate(probs["P"], [ind])
                pre_calls["P"] += 1
            elif k == "has_q":
                pre.evaluate(probs["Q"], [ind])
                pre_calls["Q"] += 1
            elif k == "stamped":
                ind.metadata["generation"] = 7  # e.g. a survivor of an earlier run, injected as initial population
            inds.append(ind)
        w = {"unit": unit, "plan": "".join(plan)}
        feat = {"evaluator": "seq", "several_problems": len(set(plan)) > 1, "prestamped": "stamped" in unit["pop"]}
        r.executions += 1
        r.count("histories")
        r.nontrivial += 1
        try:
            for gen, which in enumerate(plan):
                Population(iter(inds), trackers[which], generation=gen)
                missing = [i.genotype.v for i in inds if not i.has_fitness(probs[which])]
                if missing:
                    r.add_violation(Violation(PROP, "Population", "member-without-fitness", feat, w,
                                              f"population {unit['pop']}, constructions {''.join(plan)}: after construction {gen} over problem {which} "
                                              f"individuals {missing} have no fitness for it"))
                    break
            else:
                for which in "PQ":
                    seen = which in plan
                    for i in inds:
                        if i.has_fitness(probs[which]):
                            want = TABLE[i.genotype.v % 4] + (100.0 if which == "Q" else 0.0)
                            f = i.get_fitness(probs[which])
                            if f.fitness_components != [want] or f.maximizing_aggregate != (-want if which == "Q" else want):
                                r.add_violation(Violation(PROP, "Population", "wrong-fitness-or-pairing", feat, w,
                                                          f"population {unit['pop']} plan {''.join(plan)}: individual {i.genotype.v} problem {which}: {f}"))
                    n_calls = len(calls[which])
                    if len(set(calls[which])) != n_calls:
                        r.add_violation(Violation(PROP, "Population", "evaluated-twice", feat, w,
                                                  f"population {unit['pop']} plan {''.join(plan)}: problem {which} invoked on {calls[which]}"))
                    got = trackers[which].get_number_evaluations()
                    r.count("invocation_counts_checked")
                    if got != n_calls - pre_calls[which]:
                        r.add_violation(Violation(PROP, "ProgressTracker.get_number_evaluations", "counter-differs-from-invocations", feat, w,
                                                  f"population {unit['pop']} plan {''.join(plan)}: tracker of {which} counts {got}, its function was invoked "
                                                  f"{n_calls - pre_calls[which]} times through it"))
        except Exception as e:  # noqa
            r.add_violation(Violation(PROP, "Population", "raised", dict(feat, exc=type(e).__name__), w, f"population {unit['pop']} plan {''.join(plan)}: {exc_brief(e)}"))
    r.states = 8
    r.samples.append({"populations": unit["pop"]})
    return r


def run_lazy_multi(unit) -> UnitResult:
    import pathos.multiprocessing as pm

    r = UnitResult()
    tmp = tempfile.mkdtemp(prefix="verif_c13_")
    real_pool = pm.ProcessingPool
    try:
        def run(src):
            path = os.path.join(tmp, "m.log")
            if os.path.exists(path):
                os.remove(path)
            base = make_ff(path)
            problem = MultiObjectiveProblem(unit["minimize"], lambda p: [base(p), 1.0])
            rep = StubRepresentation(3)
            inds = [Individual(rep._new(i), rep) for i in range(unit["n"])]
            if unit["evaluator"] == "seq":
                ev = SequentialEvaluator()
            else:
                ev = ParallelEvaluator()
                VirtualPool.source = src
                pm.ProcessingPool = VirtualPool
            ev.evaluate(problem, inds)
            first = (ev.number_of_evaluations(), len(read_log(path)))
            ev.evaluate(problem, inds + [Individual(rep._new(3), rep)])
            return inds, problem, first, (ev.number_of_evaluations(), len(read_log(path))), read_log(path)

        st = ExploreStats()
        for ex in explore(run, max_execs=200, stats=st, horizon=100):
            r.executions += 1
            w = {"unit": unit, "choices": list(ex.choices)}
            feat = {"evaluator": unit["evaluator"], "lazy_multi": True}
            site = "SequentialEvaluator" if unit["evaluator"] == "seq" else "ParallelEvaluator"
            if ex.exc is not None:
                r.add_violation(Violation(PROP, site + ".evaluate", "raised", dict(feat, exc=type(ex.exc).__name__), w, f"lazy multi-objective problem: {exc_brief(ex.exc)}"))
                continue
            inds, problem, first, second, log = ex.result
            r.count("histories")
            r.nontrivial += 1
            r.count("invocation_counts_checked")
            n = unit["n"]
            if first != (n, n) or second != (n + 1, n + 1) or sorted(log) != sorted(list(range(n)) + [3]):
                r.add_violation(Violation(PROP, site + ".number_of_evaluations", "counter-differs-from-invocations", feat, w,
                                          f"{unit['evaluator']}, multi-objective problem with minimize={unit['minimize']} (one bool), {n} new individuals then one more: "
                                          f"(counter, invocations) = {first} then {second}; invoked on {log}"))
            for i in inds:
                want = [TABLE[i.genotype.v % 4], 1.0]
                f = i.get_fitness(problem)
                agg = -sum(want) if unit["minimize"] else sum(want)
                if list(f.fitness_components) != want or abs(f.maximizing_aggregate - agg) > 1e-9:
                    r.add_violation(Violation(PROP, site + ".evaluate", "wrong-fitness-or-pairing", feat, w,
                                              f"lazy multi-objective problem: individual {i.genotype.v}: {f}, expected components {want} aggregate {agg}"))
        r.states = st.executions
    finally:
        pm.ProcessingPool = real_pool
        import shutil

        shutil.rmtree(tmp, ignore_errors=True)
    return r


def run_unit(unit) -> UnitResult:
    if unit["kind"] == "lazy-multi":
        return run_lazy_multi(unit)
    if unit["kind"] == "populations":
        return run_populations(unit)
    return {"pop": run_pop, "aggregate": run_aggregate, "gp": run_gp, "trackers": run_trackers}[unit["kind"]](unit)


def finalize(cr):
    cr.require("histories")
    cr.require("gp_runs")
    cr.require("invocation_counts_checked")
    cr.exhaustive = False
    cr.assumptions += [
        "OS-level scheduling inside pathos cannot be controlled: the virtual pool models the map/imap/uimap/amap contract "
        "(tasks on dill copies, every execution/completion order) and the real pool is run on a fixed set of populations",
    ]
