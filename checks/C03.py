"""C03 -- depth limits are respected and every feasible depth limit is usable."""
from __future__ import annotations

from mc import grammars as G
from mc import refsem as R
from mc.explorer import ExhaustiveSource, ExploreStats, explore, gene_domain
from mc.harness import UnitResult, Violation
from checks import producers as P
from checks.common import exc_brief, exc_site, is_library_error, make_rep

PROP = "C03"
TECHNIQUE = (
    "exhaustive choice-tree exploration (E1) of depth-limited creation for every grammar of the family x every max "
    "depth from reference-minimum-1 upward x grow/full/PI-grow (tree, GE, SGE, dSGE), plus explicit-state search (E2) "
    "over mutate/crossover under the same limit; oracle = independent depth fold and independent minimum-depth fixed point"
)
RULE = (
    "unit = grammar x representation x decider x max_depth in {min-1,min,min+1,min+2} (min from the reference "
    "fixed point, not from the library); all random answers / genotypes; non-trivial = program whose depth equals "
    "the limit, or an infeasible limit"
)


def units(tier, seed):
    fam = [s for s in G.general_family(tier)]
    us = []
    for spec in fam:
        m = R.ref_min_depth(spec)[spec["start"]]
        if m >= R.INF:
            continue
        offs = (0, 1, 2) if tier != "quick" else (0, 1)
        if spec["name"].startswith(("S20", "S3:", "S9", "S18")):
            offs = (0, 1, 2, 3, 4)  # recursive productions of minimum depth >= 2-3 need slack above the minimum
        for dec in ("maxdepth", "full", "pigrow"):
            us.append({"kind": "reject", "spec": spec, "rep": "tree", "decider": dec, "depth": m - 1, "min": m})
            for off in offs:
                us.append({"kind": "tree-create", "spec": spec, "decider": dec, "depth": m + off, "min": m,
                           "max_execs": 1500 if tier == "quick" else 20000})
        for off in offs:
            us.append({"kind": "full-init", "spec": spec, "depth": m + off, "min": m, "max_execs": 600 if tier == "quick" else 6000})
        us.append({"kind": "reject", "spec": spec, "rep": "dsge", "depth": m - 1, "min": m})
        if spec["name"].startswith("S") and not spec.get("stringify"):
            us.append({"kind": "reject", "spec": spec, "rep": "dsge", "depth": m - 1, "min": m, "via": "decider"})
            us.append({"kind": "reject", "spec": spec, "rep": "dsge", "depth": m - 1, "min": m, "via": "lowered"})
        for off in offs:
            us.append({"kind": "map", "spec": spec, "rep": "dsge", "depth": m + off, "min": m,
                       "max_execs_total": 1500 if tier == "quick" else 10000})
    shapes = {s["name"].split(":")[0]: s for s in G.family_shapes()}
    for deep in ("S9", "S5", "S20"):
        for shallow in ("S1", "S2", "S11"):
            us.append({"kind": "init-reuse", "spec": shapes[shallow], "deep": shapes[deep], "max_execs": 150})
    # a grammar used after a sibling grammar over the same class objects (one production left out) was used: every
    # limit that is feasible for the second one is still usable
    for spec in [SIB] + [s for s in fam if s["name"].split(":")[0] in ("S3", "S9", "S12", "S16", "S2", "S27") and not s.get("stringify")]:
        for p in spec["prods"]:
            for order in ("all-first", "sub-first"):
                us.append({"kind": "after-sibling", "spec": spec, "drop": p[0], "order": order, "max_execs": 300 if tier == "quick" else 3000})
    small = [s for s in fam if not s["name"].startswith(("F2:", "F3:", "G3:", "G2:"))] if tier == "quick" else fam
    for spec in small:
        m = R.ref_min_depth(spec)[spec["start"]]
        if m >= R.INF:
            continue
        for rep in ("ge", "sge"):
            for dec in ("maxdepth", "pigrow"):
                for off in (0, 1):
                    us.append({"kind": "map", "spec": spec, "rep": rep, "decider": dec, "depth": m + off, "min": m,
                               "L": 3, "max_execs": 20 if tier == "quick" else 100})
        for off in (0, 1):
            us.append({"kind": "e2", "spec": spec, "rep": "tree", "depth": m + off, "min": m,
                       "K": 2 if tier == "quick" else 3, "max_states": 25 if tier == "quick" else 80,
                       "max_execs_per_op": 60 if tier == "quick" else 300})
            us.append({"kind": "e2", "spec": spec, "rep": "dsge", "depth": m + off, "min": m,
                       "K": 2, "max_states": 20, "max_execs_per_op": 40})
    return us


# A -> Lt(v: V) | Ng(x: A);  V -> Iv(i) | Bx(p: Q);  Q -> Pl(w): without Iv every program through V is one level deeper,
# while the production list of A is the same in both grammars
SIB = {"name": "SIB:two-layers", "abstract": [["A", None, "ABC"], ["V", None, "ABC"], ["Q", None, "ABC"]],
       "prods": [["Lt", "A", None, [["v", G.ref("V")]]], ["Ng", "A", None, [["x", G.ref("A")]]],
                 ["Iv", "V", None, [["i", G.IR01]]], ["Bx", "V", None, [["p", G.ref("Q")]]], ["Pl", "Q", None, [["w", "bool"]]]],
       "start": "A"}


def run_after_sibling(unit) -> UnitResult:
    from geneticengine.grammar.grammar import extract_grammar

    r = UnitResult()
    spec, drop = unit["spec"], unit["drop"]
    sub = dict(spec)
    sub["prods"] = [p for p in spec["prods"] if p[0] != drop]
    sub["name"] = spec["name"] + f"-{drop}"
    try:
        m_all = R.ref_min_depth(spec)[spec["start"]]
        m_sub = R.ref_min_depth(sub)[spec["start"]]
    except Exception:  # noqa
        return r
    if m_all >= R.INF or m_sub >= R.INF or drop == spec["start"]:
        return r
    b = G.build(spec)
    try:
        try:
            g_all = b.extract()
            g_sub = extract_grammar([c for c in b.considered if c.__name__ != drop], b.start)
        except Exception:  # noqa
            return r
        first, second = ((g_all, m_all, spec), (g_sub, m_sub, sub)) if unit["order"] == "all-first" else ((g_sub, m_sub, sub), (g_all, m_all, spec))
        # the first grammar is used at its feasible limits (every decision path, all three deciders) ...
        g1, m1, _ = first
        for dec in ("maxdepth", "pigrow", "full"):
            for d in (m1, m1 + 1, m1 + 2):
                for ex in explore(lambda src, dec=dec, d=d: make_rep("tree", g1, src, d, decider=dec).create_genotype(src),
                                  max_execs=unit["max_execs"], horizon=300, stats=ExploreStats()):
                    r.executions += 1
        # ... then the second one: no failure at a feasible limit, no program deeper than the limit
        g2, m2, spec2 = second
        for dec in ("maxdepth", "pigrow", "full"):
            for d in (m2, m2 + 1):
                st = ExploreStats()
                for ex in explore(lambda src, dec=dec, d=d: make_rep("tree", g2, src, d, decider=dec).create_genotype(src),
                                  max_execs=unit["max_execs"], horizon=300, stats=st):
                    r.executions += 1
                    if ex.capped:
                        continue
                    w = {"unit": P.clean_unit(unit), "decider": dec, "depth": d, "choices": list(ex.choices)}
                    if ex.exc is not None:
                        r.add_violation(Violation(PROP, "TreeBasedRepresentation.create_genotype", "feasible-limit-fails",
                                                  {"rep": "tree", "exc": type(ex.exc).__name__, "at": exc_site(ex.exc), "decider": dec, "after_sibling": True}, w,
                                                  f"{spec2['name']} (used after {first[2]['name']} on the same classes): max_depth={d} (minimum {m2}), {dec}: "
                                                  f"{exc_brief(ex.exc)}"))
                        continue
                    r.count("programs_checked")
                    tm = R.term(ex.result)
                    depth = R.term_depth(tm)
                    if m2 != m1:
                        r.nontrivial += 1
                    if depth > d:
                        r.add_violation(Violation(PROP, "TreeBasedRepresentation.create_genotype", "depth-exceeded",
                                                  {"rep": "tree", "op": "create", "decider": dec, "after_sibling": True}, dict(w, program=R.show(tm)[:300]),
                                                  f"{spec2['name']} (used after {first[2]['name']}): depth {depth} > max_depth {d}: {R.show(tm)[:160]}"))
        r.states = 1
        r.samples.append({"after_sibling": spec["name"], "dropped": drop, "order": unit["order"], "min_depths": [m1, m2]})
    finally:
        b.cleanup()
    return r


def run_reject(unit) -> UnitResult:
    """max_depth below the grammar minimum must be rejected up-front with the library's error:
    before any choice point is consumed and before any node is constructed."""
    r = UnitResult()
    ctx = P.open_ctx(unit)
    try:
        if ctx.g is None:
            return r
        d = unit["depth"]
        rep_kind = unit["rep"]
        st = ExploreStats()
        skw = {"wide_domain": gene_domain(P.GENES_DSGE)} if rep_kind == "dsge" else {}
        constructed = []

        def run(src):
            if unit.get("via") == "decider":
                # the dynamic SGE decider built directly (it is a public class: random_tree(DynamicSGESource(decider), g, decider))
                import geneticengine.representations.grammatical_evolution.dynamic_structured_ge as D
                from geneticengine.representations.tree.treebased import random_tree

                dec = D.DynamicSGEDecider(D.Genotype(src, {}), ctx.g, d)
                return random_tree(D.DynamicSGESource(dec), ctx.g, dec)
            if unit.get("via") == "lowered":
                # a representation built with a feasible limit whose max_depth attribute is lowered afterwards
                rep = make_rep(rep_kind, ctx.g, src, unit["min"] + 1)
                rep.max_depth = d
                gt = rep.create_genotype(src)
                return rep.genotype_to_phenotype(gt)
            rep = make_rep(rep_kind, ctx.g, src, d, decider=unit.get("decider", "maxdepth"))
            constructed.append(True)
            gt = rep.create_genotype(src)
            return rep.genotype_to_phenotype(gt)

        for ex in explore(run, max_execs=200, horizon=300, stats=st, source_kwargs=skw):
            r.executions += 1
            r.nontrivial += 1
            w = {"unit": P.clean_unit(unit), "choices": list(ex.choices)}
            site = ("DynamicSGE" if rep_kind == "dsge" else unit.get("decider", "")) + ".max_depth-below-minimum"
            if ex.exc is None and not ex.capped:
                tm = R.term(ex.result)
                r.add_violation(Violation(PROP, site, "infeasible-limit-accepted", {"rep": rep_kind}, w,
                                          f"{ctx.spec['name']}: max_depth={d} < minimum {unit['min']} produced {R.show(tm)[:120]}"))
            elif ex.exc is not None and not is_library_error(ex.exc):
                r.add_violation(Violation(PROP, site, "infeasible-limit-foreign-exception",
                                          {"rep": rep_kind, "exc": type(ex.exc).__name__}, w,
                                          f"{ctx.spec['name']}: max_depth={d}: {exc_brief(ex.exc)}"))
            elif ex.exc is not None and len(ex.choices) > 0:
                r.add_violation(Violation(PROP, site, "infeasible-limit-rejected-midway", {"rep": rep_kind}, w,
                                          f"{ctx.spec['name']}: max_depth={d} rejected only after {len(ex.choices)} "
                                          f"random draws: {exc_brief(ex.exc)}"))
        r.states = 1
        if len(r.samples) < 1:
            r.samples.append({"grammar": ctx.spec["name"], "infeasible_max_depth": d, "rep": rep_kind})
    finally:
        ctx.bundle.cleanup()
    return r


def run_full_init(unit) -> UnitResult:
    """FullInitializer(max_depth=d) and the full half of PositionIndependentGrowInitializer(d) respect d."""
    from geneticengine.representations.tree.operators import FullInitializer, PositionIndependentGrowInitializer
    from geneticengine.representations.tree.treebased import TreeBasedRepresentation
    from geneticengine.representations.tree.initializations import MaxDepthDecider

    r = UnitResult()
    ctx = P.open_ctx(unit)
    try:
        g = ctx.g
        if g is None:
            return r
        d = unit["depth"]
        for name in ("FullInitializer", "PositionIndependentGrowInitializer"):
            def run(src, name=name):
                rep = TreeBasedRepresentation(g, MaxDepthDecider(src, g, max(d, g.get_min_tree_depth())))
                init = FullInitializer(d) if name == "FullInitializer" else PositionIndependentGrowInitializer(d)
                n = 1 if name == "FullInitializer" else 2
                inds = list(init.initialize(None, rep, src, n))
                return inds[-1].genotype  # the individual made by the full method

            st = ExploreStats()
            for ex in explore(run, max_execs=unit["max_execs"], horizon=400, stats=st):
                r.executions += 1
                if ex.capped:
                    continue
                w = {"unit": P.clean_unit(unit), "choices": list(ex.choices), "initializer": name}
                if ex.exc is not None:
                    r.add_violation(Violation(PROP, f"{name}.initialize", "feasible-limit-fails",
                                              {"rep": "tree", "exc": type(ex.exc).__name__, "at": exc_site(ex.exc), "decider": "full-init"}, w,
                                              f"{ctx.spec['name']}: {name}({d}) (minimum {unit['min']}): {exc_brief(ex.exc)}"))
                    continue
                r.count("programs_checked")
                tm = R.term(ex.result)
                depth = R.term_depth(tm)
                if depth == d:
                    r.nontrivial += 1
                if depth > d:
                    r.add_violation(Violation(PROP, f"{name}.initialize", "depth-exceeded", {"rep": "tree", "op": "init", "decider": "full-init"},
                                              dict(w, program=R.show(tm)[:300]),
                                              f"{ctx.spec['name']}: {name}({d}) produced depth {depth}: {R.show(tm)[:160]}"))
            r.truncated = r.truncated or st.truncated
        r.states = 1
    finally:
        ctx.bundle.cleanup()
    return r


def run_init_reuse(unit) -> UnitResult:
    """The same initialiser object used first on a grammar with a larger minimum depth, then on a shallow one:
    what it creates for the second grammar must not be deeper than that grammar's own first feasible depth
    (GrowInitializer searches the shallowest usable limit) nor than the limit it is given (full / PI-grow)."""
    from geneticengine.representations.tree.operators import FullInitializer, GrowInitializer, PositionIndependentGrowInitializer
    from geneticengine.representations.tree.treebased import TreeBasedRepresentation
    from geneticengine.representations.tree.initializations import MaxDepthDecider

    r = UnitResult()
    ctx = P.open_ctx(unit)
    deep_b = G.build(unit["deep"])
    try:
        g = ctx.g
        gd = deep_b.extract()
        m = R.ref_min_depth(ctx.spec)[ctx.spec["start"]]
        for name in ("GrowInitializer", "PositionIndependentGrowInitializer", "FullInitializer"):
            limit = m if name == "GrowInitializer" else m + 1

            def run(src, name=name, limit=limit):
                init = {"GrowInitializer": lambda: GrowInitializer(), "FullInitializer": lambda: FullInitializer(limit),
                        "PositionIndependentGrowInitializer": lambda: PositionIndependentGrowInitializer(limit)}[name]()
                rep_d = TreeBasedRepresentation(gd, MaxDepthDecider(src, gd, gd.get_min_tree_depth() + 1))
                if name == "FullInitializer":
                    init.max_depth = gd.get_min_tree_depth() + 1
                first = list(init.initialize(None, rep_d, src, 2, **({"max_tries": 2} if name == "GrowInitializer" else {})))
                if name == "FullInitializer":
                    init.max_depth = limit
                rep = TreeBasedRepresentation(g, MaxDepthDecider(src, g, limit))
                return [i.genotype for i in init.initialize(None, rep, src, 2, **({"max_tries": 2} if name == "GrowInitializer" else {}))]

            st = ExploreStats()
            for ex in explore(run, max_dev=1, max_execs=unit["max_execs"], horizon=3000, stats=st):
                r.executions += 1
                if ex.capped or ex.exc is not None:
                    r.count("init_reuse_raised_or_capped")
                    continue
                r.count("programs_checked")
                for gt in ex.result:
                    depth = R.value_depth(gt)
                    if depth == limit:
                        r.nontrivial += 1
                    if depth > limit:
                        tm = R.term(gt)
                        r.add_violation(Violation(PROP, f"{name}.initialize", "depth-exceeded", {"rep": "tree", "op": "init-reuse", "decider": name},
                                                  {"unit": P.clean_unit(unit), "choices": list(ex.choices), "program": R.show(tm)[:200]},
                                                  f"{name} used on {unit['deep']['name']} and then on {ctx.spec['name']} (limit {limit}): depth {depth}: {R.show(tm)[:120]}"))
        r.states = 1
    finally:
        ctx.bundle.cleanup()
        deep_b.cleanup()
    return r


def oracle(ctx, ev, r, tm):
    unit = ctx.unit
    d = unit["depth"]
    w = {"unit": P.clean_unit(unit), "choices": list(ev.choices)}
    if tm is None:
        # any failure at a feasible limit is a violation (library error or not)
        if ev.extra.get("mapped") and ev.rep != "tree":
            pass
        r.add_violation(Violation(
            PROP, P.site_of(ev), "feasible-limit-fails",
            {"rep": ev.rep, "exc": type(ev.exc).__name__, "at": exc_site(ev.exc), "decider": unit.get("decider", "")},
            w, f"{ctx.spec['name']}: max_depth={d} (minimum {unit['min']}): {exc_brief(ev.exc)}"))
        return
    r.count("programs_checked")
    depth = R.term_depth(tm)
    if depth == d:
        r.nontrivial += 1
    if depth > d:
        r.add_violation(Violation(
            PROP, P.site_of(ev), "depth-exceeded", {"rep": ev.rep, "op": ev.op, "decider": unit.get("decider", "")},
            dict(w, program=R.show(tm)[:300]),
            f"{ctx.spec['name']}: depth {depth} > max_depth {d}: {R.show(tm)[:160]}"))


def run_unit(unit) -> UnitResult:
    if unit["kind"] == "reject":
        return run_reject(unit)
    if unit["kind"] == "full-init":
        return run_full_init(unit)
    if unit["kind"] == "init-reuse":
        return run_init_reuse(unit)
    if unit["kind"] == "after-sibling":
        return run_after_sibling(unit)
    return P.drive(unit, oracle)


def finalize(cr):
    cr.require("programs_checked")
    cr.assumptions += [
        "tree-depth mode (expansion_depthing=False); depth = longest chain of nested grammar nodes, lists/tuples transparent",
        "minimum depths come from mc.refsem.ref_min_depth (validated against language enumeration by C05)",
    ]
