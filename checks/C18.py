"""C18 -- random primitives honour their contracts for every random source."""
from __future__ import annotations

import itertools
import math
import sys
from collections import Counter

from geneticengine.random.sources import NativeRandomSource, RandomSource

from mc import grammars as G
from mc.explorer import ExhaustiveSource, ExploreStats, explore, gene_domain, MAXSIZE
from mc.harness import UnitResult, Violation
from checks.common import exc_brief, is_library_error

PROP = "C18"
TECHNIQUE = (
    "assume/guarantee: (1) the derived primitives (choice, choice_weighted, shuffle, pop_random, random_bool, "
    "normalvariate) are run for EVERY in-bounds answer of randint on an exhaustive scripted source (E1, full ranges); "
    "(2) each source's two base methods are enumerated over all gene lists A^L x a bounds alphabet (genotype-backed "
    "sources) or seeds x bounds (native source); (3) the deciders' bounded draws over the bounds alphabet x all sub-draws; (4) two sources over the same genes (seed) under EVERY interleaving of three draws each with a third source created in between, against the stream of a source used alone"
)
RULE = (
    "units: primitive x argument alphabet (option lists n<=5, weight vectors over {0,1,2,3,.5}e-5 so that the integer "
    "range is enumerated completely, plus full-size vectors in thorough); source x gene list x bounds; decider x bounds; "
    "non-trivial = case with a zero weight, equal bounds, wrap-around of the gene index or a range wider than 1000"
)

BOUNDS = [(0, 0), (3, 3), (0, 1), (-5, 5), (0, 10), (0, 999), (0, 1000), (0, 1001), (0, 1002), (-1000, 1000),
          (0, 10**6), (-(MAXSIZE - 1), MAXSIZE), (0, MAXSIZE), (-7, -7), (-3, -1), (32, 128)]
WIDE = []
for _w in list(range(1001, 1041)) + [1999, 2000, 2001, 9999, 10000, 10001, 19999, 20000, 99999, 100001, 199999, 999999, 1000001, 1999999]:
    for _lo in (0, 1, -1000, -(_w // 2)):
        WIDE.append((_lo, _lo + _w))
# wide ranges far from zero: lo + hi lies beyond 2**53, where float arithmetic on the bounds is no longer exact
for _lo, _w in [(1, 2 * 10**17), (2**53 + 1, 1001), (2**53 + 1, 1003), (10**17 + 3, 10**17 + 4), (MAXSIZE - 2001, 2001), (MAXSIZE - 1001, 1001),
                (-(MAXSIZE - 1), 1001), (-(MAXSIZE - 1), 2 * 10**17 + 1), (-(2**62) - 1, 2**61 + 3), (3 * 2**60 + 1, 2**60 + 2**10 + 1)]:
    WIDE.append((_lo, _lo + _w))
FBOUNDS = [(0.0, 1.0), (-1.0, 1.0), (1.5, 1.5), (9.0, 10.0), (-100.0, 100.0), (3.14, 3.14), (7.7, 7.7), (1 / 3, 1 / 3),
           (sys.float_info.max, sys.float_info.max), (-2.718, -2.718), (0.1, 0.1000001), (1e-300, 2e-300)]


def units(tier, seed):
    us = []
    for n in range(1, 6):
        us.append({"kind": "choice", "n": n})
        us.append({"kind": "shuffle", "n": n})
        us.append({"kind": "pop", "n": n})
    us.append({"kind": "bool"})
    us.append({"kind": "normal"})
    wa = [0, 1e-5, 2e-5, 3e-5, 0.5e-5 * 2 * 2]
    vecs = []
    for k in (1, 2, 3):
        for v in itertools.product([0, 1, 2, 3], repeat=k):
            if any(v):
                vecs.append([x * 1e-5 for x in v])
    vecs += [[5e-5, 5e-5, 90e-5], [0.5e-4, 1.5e-4], [0, 0, 2.5e-5, 2.5e-5]]
    for v in vecs:
        us.append({"kind": "weighted", "weights": v, "full": True})
    big = [[5, 5, 90], [0, 1], [1, 0], [0, 0, 1], [0.5, 0.5], [1.0, 0.0], [0.2, 0.3, 0.5], [0, 3, 0, 1],
           # running float sums that drift away from the exactly rounded total, zero weight first / last
           [0, 0.2, 0.7, 0.1], [0] + [0.1] * 10, [0.1] * 10 + [0], [0, 0.7, 0.2, 0.1]]
    for v in big:
        us.append({"kind": "weighted", "weights": v, "full": tier != "quick" and sum(v) <= 2})
    # two weighted choices on ONE source: the second call must depend on its own arguments only (the same weight /
    # option list object mutated in place between the calls, or a fresh list)
    small = {k: [list(v) for v in itertools.product([0, 1, 2], repeat=k) if any(v)] for k in (2, 3)}
    for k in (2, 3):
        for mode in ("weights-in-place", "options-in-place", "fresh-lists"):
            for w1 in small[k]:
                us.append({"kind": "weighted-seq", "mode": mode, "w1": [x * 1e-5 for x in w1],
                           "w2s": [[x * 1e-5 for x in w2] for w2 in small[k]]})
    for src in ("ge", "stack", "sge", "dsge", "sge-uneven"):
        for L in (1, 2, 3):
            us.append({"kind": "wrapper", "src": src, "L": L})
    us.append({"kind": "native", "seeds": 32 if tier == "quick" else 256, "seed": seed})
    us.append({"kind": "native-streams", "seed": seed, "len": 2 if tier == "quick" else 3})
    for src in ("ge", "stack", "sge", "dsge", "native"):
        us.append({"kind": "interleaved-streams", "src": src, "draws": 3 if tier == "quick" else 4})
    for lo, hi in BOUNDS:
        us.append({"kind": "decider", "lo": lo, "hi": hi})
        us.append({"kind": "dsge-decider", "lo": lo, "hi": hi})
    for lo, hi in WIDE:
        us.append({"kind": "decider", "lo": lo, "hi": hi})
    us.append({"kind": "decider-defaults"})
    return us


def V(site, kind, feat, w, msg):
    return Violation(PROP, site, kind, feat, w, msg)


def run_unit(unit) -> UnitResult:
    r = UnitResult()
    k = unit["kind"]
    st = ExploreStats()
    w0 = {"unit": unit}
    if k == "choice":
        opts = [f"o{i}" for i in range(unit["n"])]
        got = Counter()
        for ex in explore(lambda s: RandomSource.choice(s, list(opts)), stats=st):
            r.executions += 1
            if ex.exc is not None or ex.result not in opts:
                r.add_violation(V("RandomSource.choice", "not-a-member", {"n": unit["n"]}, dict(w0, choices=list(ex.choices)),
                                  f"choice({opts}) -> {ex.result!r} {ex.exc!r}"))
            else:
                got[ex.result] += 1
        if set(got) != set(opts) or len(set(got.values())) != 1:
            r.add_violation(V("RandomSource.choice", "not-uniform-or-unreachable", {"n": unit["n"]}, w0, f"choice({opts}) outcome counts {dict(got)}"))
        r.states = len(got)
        r.samples.append({"choice": opts, "counts": dict(got)})
    elif k == "shuffle":
        n = unit["n"]
        base = list(range(n))
        got = Counter()
        for ex in explore(lambda s: tuple(RandomSource.shuffle(s, list(base))), stats=st):
            r.executions += 1
            if ex.exc is not None or sorted(ex.result) != base:
                r.add_violation(V("RandomSource.shuffle", "not-a-permutation", {"n": n}, dict(w0, choices=list(ex.choices)), f"shuffle({base}) -> {ex.result!r} {ex.exc!r}"))
            else:
                got[ex.result] += 1
        if len(got) != math.factorial(n) or any(c != 1 for c in got.values()):
            r.add_violation(V("RandomSource.shuffle", "not-a-bijection", {"n": n}, w0,
                              f"shuffle of {n} elements: {len(got)} distinct permutations from {st.executions} answer sequences (expected {math.factorial(n)} once each)"))
        r.states = len(got)
        r.nontrivial = len(got)
        r.samples.append({"shuffle_n": n, "permutations": len(got)})
    elif k == "pop":
        n = unit["n"]
        bases = [[f"e{i}" for i in range(n)], ["d"] * n, (["d", "e"] * n)[:n],
                 [[0] for _ in range(n)],  # equal but distinct objects
                 ([1, 1.0, True, 1] * n)[:n]]
        for base in bases:
            got = Counter()

            def run(s, base=base):
                lst = list(base)
                item = RandomSource.pop_random(s, lst)
                return item, lst

            for ex in explore(run, stats=st):
                r.executions += 1
                ok = ex.exc is None
                if ok:
                    item, lst = ex.result
                    # by identity: exactly the returned object left the list, every other object is still there once
                    rest = list(base)
                    idx = next((i for i, x in enumerate(rest) if x is item), None)
                    if idx is None:
                        ok = False
                    else:
                        rest.pop(idx)
                        ok = len(rest) == len(lst) and sorted(map(id, rest)) == sorted(map(id, lst))
                if not ok:
                    r.add_violation(V("RandomSource.pop_random", "not-exactly-one-removed", {"n": n}, dict(w0, choices=list(ex.choices)),
                                      f"pop_random({base}) -> {ex.result!r} {ex.exc!r}"))
                else:
                    got[ex.choices] += 1
            r.states += len(got)
        r.samples.append({"pop_random_n": n})
    elif k == "bool":
        got = set()
        for ex in explore(lambda s: RandomSource.random_bool(s), stats=st):
            r.executions += 1
            got.add(ex.result)
            if type(ex.result) is not bool:
                r.add_violation(V("RandomSource.random_bool", "not-a-bool", {}, w0, f"{ex.result!r}"))
        if got != {True, False}:
            r.add_violation(V("RandomSource.random_bool", "unreachable-value", {}, w0, f"{got}"))
        r.states = len(got)
        r.samples.append({"random_bool": sorted(got)})
    elif k == "normal":
        for ex in explore(lambda s: RandomSource.normalvariate(s, 1.0, 2.0), stats=st):
            r.executions += 1
            if ex.exc is not None or type(ex.result) is not float or ex.result != ex.result:
                r.add_violation(V("RandomSource.normalvariate", "not-a-float", {}, dict(w0, choices=list(ex.choices)), f"{ex.result!r} {ex.exc!r}"))
        r.states = st.executions
        r.samples.append({"normalvariate_answers": st.executions})
    elif k == "weighted":
        ws = unit["weights"]
        opts = [f"o{i}" for i in range(len(ws))]
        got = Counter()
        skw = {"full_max": 10**7} if unit["full"] else {}
        for ex in explore(lambda s: s.choice_weighted(list(opts), list(ws)), stats=st, source_kwargs=skw, max_execs=2 * 10**6):
            r.executions += 1
            if ex.exc is not None or ex.result not in opts:
                r.add_violation(V("RandomSource.choice_weighted", "not-a-member", {}, dict(w0, choices=list(ex.choices)), f"{ws}: {ex.result!r} {ex.exc!r}"))
                continue
            got[ex.result] += 1
            if ws[opts.index(ex.result)] == 0 and any(ws):
                r.add_violation(V("RandomSource.choice_weighted", "zero-weight-returned", {"first": opts.index(ex.result) == 0},
                                  dict(w0, choices=list(ex.choices)), f"weights {ws}: option {ex.result} of weight 0 returned"))
        if any(x == 0 for x in ws):
            r.nontrivial += 1
        for o, wgt in zip(opts, ws):
            if wgt > 0 and got[o] == 0:
                r.add_violation(V("RandomSource.choice_weighted", "positive-weight-unreachable", {}, w0, f"weights {ws}: option {o} never returned"))
        if unit["full"] and not st.truncated:
            tot = sum(got.values())
            for o, wgt in zip(opts, ws):
                want = wgt / sum(ws)
                have = got[o] / tot
                if abs(want - have) > 1.0 / tot + 1e-12:
                    r.add_violation(V("RandomSource.choice_weighted", "not-proportional", {}, w0,
                                      f"weights {ws}: option {o} returned for {got[o]}/{tot} of the draws, expected share {want:.6f}"))
            r.count("weight_vectors_enumerated_completely")
        r.states = len(got)
        r.abstracted = st.abstracted_points
        r.samples.append({"weights": ws, "counts": dict(got), "complete": unit["full"]})
    elif k == "weighted-seq":
        w1, mode = unit["w1"], unit["mode"]
        n = len(w1)
        outcomes = set()
        for w2 in unit["w2s"]:
            opts1 = [f"o{i}" for i in range(n)]
            opts2 = list(reversed(opts1)) if mode == "options-in-place" else list(opts1)

            def prog(s, w1=w1, w2=w2, opts1=opts1, opts2=opts2):
                wl, ol = list(w1), list(opts1)
                a = s.choice_weighted(ol, wl)
                if mode == "weights-in-place":
                    wl[:] = w2
                elif mode == "options-in-place":
                    wl[:] = w2
                    ol[:] = opts2
                else:
                    wl, ol = list(w2), list(opts2)
                return a, s.choice_weighted(ol, wl)

            got = Counter()
            st2 = ExploreStats()
            for ex in explore(prog, stats=st2, max_execs=10**5):
                r.executions += 1
                if ex.exc is not None or ex.result[0] not in opts1 or ex.result[1] not in opts1:
                    r.add_violation(V("RandomSource.choice_weighted", "second-call-not-a-member", {"mode": mode}, dict(w0, w2=w2, choices=list(ex.choices)),
                                      f"{w1} then {w2}: {ex.result!r} {ex.exc!r}"))
                    continue
                a, b = ex.result
                got[b] += 1
                outcomes.add((a, b))
                if w2[opts2.index(b)] == 0:
                    r.add_violation(V("RandomSource.choice_weighted", "second-call-zero-weight-returned", {"mode": mode}, dict(w0, w2=w2, choices=list(ex.choices)),
                                      f"weights {w1} were drawn from first, then the lists were set to {opts2} / {w2} ({mode}) on the same source: "
                                      f"option {b} of weight 0 returned"))
            tot = sum(got.values())
            for o, wgt in zip(opts2, w2):
                want, have = wgt / sum(w2), got[o] / max(tot, 1)
                if not st2.truncated and abs(want - have) > 1.0 / max(tot, 1) + 1e-12:
                    r.add_violation(V("RandomSource.choice_weighted", "second-call-not-proportional", {"mode": mode}, dict(w0, w2=w2),
                                      f"after a draw from {w1}, weights {w2} ({mode}): option {o} returned for {got[o]}/{tot} of the draws, expected share {want:.6f}"))
            if any(x == 0 for x in w2) and w2 != w1:
                r.nontrivial += 1
            st.executions += st2.executions
        r.states = len(outcomes)
        r.count("weighted_two_call_sequences", len(unit["w2s"]))
        r.samples.append({"w1": w1, "mode": mode, "second_weight_vectors": len(unit["w2s"]), "distinct_outcome_pairs": len(outcomes)})
    elif k == "wrapper":
        L = unit["L"]
        alpha = [0, 1, 2, 3, 7, 1000, 1001, 1023, 1024, 1025, MAXSIZE - 1, MAXSIZE]
        for dna in itertools.product(alpha, repeat=L):
            for lo, hi in BOUNDS:
                src = _wrapper(unit["src"], list(dna))
                for call in range(2 * L + 1):
                    r.executions += 1
                    try:
                        v = src.randint(lo, hi)
                        ok = type(v) is int and lo <= v <= hi
                        msg = f"{v!r}"
                    except Exception as e:  # noqa
                        ok, msg = False, exc_brief(e)
                    if call >= L:
                        r.nontrivial += 1
                    if not ok:
                        r.add_violation(V(f"{unit['src']}.ListWrapper.randint", "out-of-bounds", {"src": unit["src"]},
                                          dict(w0, dna=list(dna), bounds=[lo, hi], call=call), f"dna={list(dna)} randint({lo},{hi}) call {call} -> {msg}"))
            for lo, hi in FBOUNDS:
                src = _wrapper(unit["src"], list(dna))
                for call in range(L + 1):
                    r.executions += 1
                    try:
                        v = src.random_float(lo, hi)
                        ok = type(v) is float and lo <= v <= hi
                        msg = f"{v!r}"
                    except Exception as e:  # noqa
                        ok, msg = False, exc_brief(e)
                    if not ok:
                        r.add_violation(V(f"{unit['src']}.ListWrapper.random_float", "out-of-bounds", {"src": unit["src"]},
                                          dict(w0, dna=list(dna), bounds=[lo, hi], call=call), f"dna={list(dna)} random_float({lo},{hi}) -> {msg}"))
            # derived primitives on the genotype-backed source
            src = _wrapper(unit["src"], list(dna))
            try:
                c = src.choice(["a", "b", "c"])
                cw = src.choice_weighted(["a", "b", "c"], [0, 1, 2])
                sh = src.shuffle([1, 2, 3])
                b = src.random_bool()
                ok = c in "abc" and cw in "bc" and sorted(sh) == [1, 2, 3] and type(b) is bool
                msg = f"{c} {cw} {sh} {b}"
            except Exception as e:  # noqa
                ok, msg = False, exc_brief(e)
            r.executions += 4
            if not ok:
                r.add_violation(V(f"{unit['src']}.ListWrapper.<derived>", "contract", {"src": unit["src"]}, dict(w0, dna=list(dna)), f"dna={list(dna)}: {msg}"))
        r.states = len(alpha) ** L
        r.samples.append({"source": unit["src"], "gene_lists": len(alpha) ** L, "bounds": len(BOUNDS)})
    elif k == "native":
        for seed in list(range(unit["seeds"])) + [unit["seed"]]:
            for lo, hi in BOUNDS:
                s = NativeRandomSource(seed)
                for _ in range(16):
                    r.executions += 1
                    v = s.randint(lo, hi)
                    if not (type(v) is int and lo <= v <= hi):
                        r.add_violation(V("NativeRandomSource.randint", "out-of-bounds", {}, dict(w0, seed=seed, bounds=[lo, hi]), f"seed {seed} randint({lo},{hi}) -> {v}"))
            for lo, hi in FBOUNDS:
                s = NativeRandomSource(seed)
                for _ in range(16):
                    r.executions += 1
                    v = s.random_float(lo, hi)
                    if not (type(v) is float and lo <= v <= hi):
                        r.add_violation(V("NativeRandomSource.random_float", "out-of-bounds", {}, dict(w0, seed=seed, bounds=[lo, hi]), f"seed {seed} random_float({lo},{hi}) -> {v}"))
        r.states = unit["seeds"] + 1
        r.nontrivial = r.states
        r.samples.append({"native_seeds": unit["seeds"]})
    elif k == "native-streams":
        ops = {
            "randint": lambda s: s.randint(0, 10),
            "wide": lambda s: s.randint(0, MAXSIZE),
            "float": lambda s: s.random_float(0, 1),
            "choice": lambda s: s.choice([1, 2, 3]),
            "weighted": lambda s: s.choice_weighted([1, 2, 3], [1, 2, 3]),
            "shuffle": lambda s: tuple(s.shuffle([1, 2, 3, 4])),
            "pop": lambda s: s.pop_random([1, 2, 3, 4]),
            "bool": lambda s: s.random_bool(),
            "normal": lambda s: s.normalvariate(0, 1),
        }
        for seed in (0, 1, unit["seed"]):
            for seq in itertools.product(ops, repeat=unit["len"]):
                a, b = NativeRandomSource(seed), NativeRandomSource(seed)
                ra = [ops[o](a) for o in seq] + [a.randint(0, 10**6)]
                rb = [ops[o](b) for o in seq] + [b.randint(0, 10**6)]
                r.executions += 2
                if ra != rb:
                    r.add_violation(V("NativeRandomSource", "same-seed-different-stream", {}, dict(w0, seed=seed, ops=list(seq)), f"seed {seed} ops {seq}: {ra} != {rb}"))
        r.states = len(ops) ** unit["len"]
        r.nontrivial = r.states
        r.samples.append({"op_sequences": r.states})
    elif k == "interleaved-streams":
        # two sources over the same genes (seed) used side by side, a third one created in between: every schedule
        # of their draws must give each source the stream it produces on its own
        D = unit["draws"]
        ops = [lambda s: s.randint(0, 9), lambda s: s.choice("abcde"), lambda s: s.choice_weighted("xyz", [0, 1, 2]), lambda s: tuple(s.shuffle([1, 2, 3]))]
        dnas = [[7, 1, 12, 5], [3, 3, 4], [0, 1025, 2, 9, 11]]
        for dna in dnas:
            def mk(dna=dna):
                return NativeRandomSource(dna[0]) if unit["src"] == "native" else _wrapper(unit["src"], list(dna))
            solo = mk()
            reference = [ops[i % 4](solo) for i in range(D)]
            scheds = set()
            for bits in itertools.product("ABC", repeat=2 * D + 1):
                if bits.count("A") == D and bits.count("B") == D:
                    scheds.add(bits)
            for sched in sorted(scheds):
                a, b = mk(), mk()
                out = {"A": [], "B": []}
                for ev in sched:
                    if ev == "C":
                        mk()
                    else:
                        srcobj = a if ev == "A" else b
                        out[ev].append(ops[len(out[ev]) % 4](srcobj))
                r.executions += 1
                r.count("schedules")
                if sched != tuple("A" * D + "B" * D + "C"):
                    r.nontrivial += 1
                if out["A"] != reference or out["B"] != reference:
                    r.add_violation(V(f"{unit['src']}.source", "stream-depends-on-other-live-sources", {"src": unit["src"]},
                                      dict(w0, dna=dna, schedule="".join(sched)),
                                      f"{unit['src']} source over genes {dna}: alone {reference}; under schedule {''.join(sched)} A={out['A']} B={out['B']}"))
                    break
        r.states = len(dnas)
        r.samples.append({"interleaved": unit["src"], "draws_per_source": D})
    elif k in ("decider", "dsge-decider"):
        lo, hi = unit["lo"], unit["hi"]
        if k == "decider":
            from geneticengine.representations.tree.initializations import BaseDecider

            class D(BaseDecider):
                def choose_production_alternatives(self, ty, alternatives, ctx):
                    return alternatives[0]

            def run(s):
                return D(s, None).random_int(lo, hi)

            site = "BaseDecider.random_int"
            skw = {}
        else:
            from geneticengine.representations.grammatical_evolution.dynamic_structured_ge import DynamicSGEDecider, Genotype

            bundle = G.build(G.family_shapes()[0])
            g = bundle.extract()

            def run(s):
                return DynamicSGEDecider(Genotype(s, {}), g, 5).random_int(lo, hi)

            site = "DynamicSGEDecider.random_int"
            skw = {"wide_domain": gene_domain([0, 1, 2, 3, 7, 1000, 1001, 1023, 1024, MAXSIZE])}
        vals = set()
        for ex in explore(run, stats=st, source_kwargs=skw, max_execs=20000):
            r.executions += 1
            if hi - lo > 1000 or hi == lo:
                r.nontrivial += 1
            if ex.exc is not None:
                r.add_violation(V(site, "raised", {"exc": type(ex.exc).__name__}, dict(w0, choices=list(ex.choices)), f"random_int({lo},{hi}): {exc_brief(ex.exc)}"))
            elif not (type(ex.result) is int and lo <= ex.result <= hi):
                r.add_violation(V(site, "out-of-bounds", {"wide": hi - lo > 1000}, dict(w0, choices=list(ex.choices)), f"random_int({lo},{hi}) -> {ex.result}"))
            else:
                vals.add(ex.result)
        if k == "dsge-decider":
            bundle.cleanup()
        r.states = len(vals)
        r.abstracted = st.abstracted_points
        r.samples.append({"decider": site, "bounds": [lo, hi], "distinct_values": len(vals)})
    elif k == "decider-defaults":
        from geneticengine.representations.tree.initializations import BaseDecider

        class D2(BaseDecider):
            def choose_production_alternatives(self, ty, alternatives, ctx):
                return alternatives[0]

        for name, fn, typ in (("random_int", lambda d: d.random_int(), int), ("random_float", lambda d: d.random_float(), float),
                              ("random_str", lambda d: d.random_str(), str), ("random_bool", lambda d: d.random_bool(), bool)):
            for ex in explore(lambda s: fn(D2(s, None)), stats=st, max_execs=3000, max_dev=3):
                r.executions += 1
                if ex.exc is not None or type(ex.result) is not typ:
                    r.add_violation(V(f"BaseDecider.{name}", "wrong-type-or-raised", {}, dict(w0, choices=list(ex.choices)), f"{name}() -> {ex.result!r:.60} {ex.exc!r}"))
                elif name == "random_int" and not (-(MAXSIZE - 1) <= ex.result <= MAXSIZE):
                    r.add_violation(V("BaseDecider.random_int", "out-of-bounds", {"wide": True}, dict(w0, choices=list(ex.choices)), f"random_int() -> {ex.result}"))
        r.states = st.executions
        r.samples.append({"decider_defaults": st.executions})
    r.truncated = st.truncated
    return r


def _wrapper(kind, dna):
    if kind == "dsge":
        # the source dynamic SGE hands to refinements during mapping: genes are read per key through the decider
        from geneticengine.representations.grammatical_evolution import dynamic_structured_ge as D

        if not hasattr(D, "DynamicSGESource"):
            raise RuntimeError("DynamicSGESource not found")
        if "g" not in _DSGE:
            _DSGE["b"] = G.build(G.family_shapes()[0])
            _DSGE["g"] = _DSGE["b"].extract()

        class Cyclic(RandomSource):  # on-demand extension keeps cycling through the same genes
            def __init__(self):
                self.i = 0

            def randint(self, lo, hi):
                v = dna[self.i % len(dna)]
                self.i += 1
                return v

            def random_float(self, lo, hi):
                return lo

        gt = D.Genotype(Cyclic(), {int: list(dna), float: list(dna)})
        return D.DynamicSGESource(D.DynamicSGEDecider(gt, _DSGE["g"], 5))
    if kind == "ge":
        from geneticengine.representations.grammatical_evolution.ge import ListWrapper

        return ListWrapper(dna)
    if kind == "stack":
        from geneticengine.representations.stackgggp import ListWrapper

        return ListWrapper(dna)
    from geneticengine.representations.grammatical_evolution.structured_ge import INFRASTRUCTURE_KEY, StructuredListWrapper

    if kind == "sge-uneven":  # per-symbol gene lists of different lengths, a longer one first
        return StructuredListWrapper({"first": [5, 6, 7, 8, 9, 10, 11], INFRASTRUCTURE_KEY: dna, "other": [5]})
    return StructuredListWrapper({INFRASTRUCTURE_KEY: dna, "other": [5]})


_DSGE: dict = {}


def finalize(cr):
    cr.require("weight_vectors_enumerated_completely")
    cr.assumptions += [
        "NativeRandomSource is checked over an enumerated seed set only (bounded, not exhaustive over the generator state)",
        "weight vectors are scaled by 1e-5 so that the integer draw range of choice_weighted is enumerated completely; "
        "full-size vectors are covered by landmark + threshold answers (quick) or completely (thorough, total weight <= 2)",
    ]
