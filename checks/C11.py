"""C11 -- per-node size and depth metadata matches the actual program structure."""
from __future__ import annotations

from collections import Counter

from mc import grammars as G
from mc import refsem as R
from mc.harness import UnitResult, Violation
from checks import producers as P

PROP = "C11"
TECHNIQUE = (
    "every node of every program produced by the bounded exhaustive exploration (E1 create, E2 mutate/crossover "
    "closure incl. reused subtrees) is compared with an independent fold over the actual structure"
)
RULE = (
    "units = C01's tree-representation units (create with every decider, E2 over mutate/crossover); every node of every "
    "produced program is checked: gengy_nodes, gengy_distance_to_term, gengy_weighted_nodes, gengy_types_this_way; "
    "non-trivial = node owning a list, or node reused by reference from a parent"
)


def units(tier, seed):
    us = P.standard_units(tier, None, reps_map=(), reps_e2=("tree",))
    # the other depth-counting mode on a sub-family (numeric labels only)
    fam = G.general_family("quick")
    for spec in fam:
        n = spec["name"]
        if G.has_form(spec, G.is_form("union")):
            # how many expansions a Union field hides is not defined consistently by the library itself (the labels add no
            # hidden abstract layer below a Union field, the distance analysis does): not decided, see DESIGN 9.2
            continue
        if n.split(":")[0] in ("S1", "S2", "S3", "S5", "S9", "S11", "S15", "S18", "S27", "S29", "S30") or (n.startswith("F1:") and "," not in n):
            for dec in ("maxdepth", "pigrow"):
                us.append({"kind": "tree-create", "spec": spec, "decider": dec, "depth_off": 2, "xd": True, "max_execs": 400 if tier == "quick" else 5000})
            # the same grammar declared a second time under the module and class names of a first, used declaration
            for xd in (True, False):
                us.append({"kind": "tree-create", "spec": spec, "decider": "maxdepth", "depth_off": 2, "xd": xd, "redeclare": True,
                           "max_execs": 200 if tier == "quick" else 2000})
    # the dependent-types context grammar (lists of names threaded through the tree by hand-written refinements)
    for dec in ("maxdepth", "pigrow"):
        for off in (1, 2, 3):
            us.append({"kind": "tree-create", "spec": G.CONTEXT_SPEC, "decider": dec, "depth_off": off, "max_execs": 800 if tier == "quick" else 8000})
    us.append({"kind": "e2", "spec": G.CONTEXT_SPEC, "rep": "tree", "depth_off": 2, "K": 2, "max_states": 25, "max_execs_per_op": 60})
    return us


def nodes_of(v, out, path="$"):
    if isinstance(v, (list, tuple)):
        for i, x in enumerate(v):
            nodes_of(x, out, f"{path}[{i}]")
        return
    if type(v).__module__ == "builtins":
        return
    out.append((path, v))
    for n in R._field_names(type(v)):
        nodes_of(getattr(v, n), out, f"{path}.{n}")


def lists_of(v, out, path="$"):
    """Every list container of a program (they carry labels of their own, which their owners reuse)."""
    if isinstance(v, list):
        out.append((path, v))
        for i, x in enumerate(v):
            lists_of(x, out, f"{path}[{i}]")
        return
    if isinstance(v, tuple):
        for i, x in enumerate(v):
            lists_of(x, out, f"{path}({i})")
        return
    if type(v).__module__ == "builtins":
        return
    for n in R._field_names(type(v)):
        lists_of(getattr(v, n), out, f"{path}.{n}")


def container_labels(lst, g):
    """Reference labels of a list container (tree-depth mode): transparent, it sums its elements."""
    nodes, dist, weighted = 0, 0, 0
    for c in lst:
        if isinstance(c, (list, tuple)):
            n, d, w = container_labels(c, g)
            nodes += n
            dist = max(dist, d)
            weighted += w
        else:
            n, d, w, _ = R.ref_labels(c, g, False)
            nodes += n
            dist = max(dist, d + 1)
            weighted += w
    return nodes, dist, weighted


def owns_list(v) -> bool:
    return any(isinstance(getattr(v, n), list) for n in R._field_names(type(v)))


def oracle_expansion(ctx, ev, r, tm):
    nodes: list = []
    nodes_of(ev.result, nodes)
    for path, v in nodes:
        r.count("nodes_checked_expansion_mode")
        want = R.ref_labels_expansion(v, ctx.view)
        got = (getattr(v, "gengy_nodes", None), getattr(v, "gengy_distance_to_term", None), getattr(v, "gengy_weighted_nodes", None))
        if got != want:
            which = [n for n, a, b in zip(("gengy_nodes", "gengy_distance_to_term", "gengy_weighted_nodes"), got, want) if a != b][0]
            r.add_violation(Violation(PROP, P.site_of(ev), "label:" + which, {"owns_list": owns_list(v), "op": ev.op, "mode": "expansion"},
                                      {"unit": P.clean_unit(ctx.unit), "choices": list(ev.choices), "path": path, "program": R.show(tm)[:300]},
                                      f"{ctx.spec['name']} (expansion_depthing=True): node {R.show(R.term(v))[:80]} at {path}: "
                                      f"(nodes, distance, weighted) = {got}, structure gives {want}"))
            return


def oracle(ctx, ev, r, tm):
    if tm is None or ev.rep != "tree":
        return
    if ctx.unit.get("xd"):
        return oracle_expansion(ctx, ev, r, tm)
    lists: list = []
    lists_of(ev.result, lists)
    for path, lst in lists:
        if not hasattr(lst, "gengy_labeled"):
            if type(lst) is list:
                r.count("plain_lists_that_cannot_carry_labels")
                continue
            # a container type that can carry labels (GengyList) left unlabelled, e.g. an empty one
            r.add_violation(Violation(PROP, P.site_of(ev), "label:list-container-unlabelled", {"op": ev.op, "empty": len(lst) == 0},
                                      {"unit": P.clean_unit(ctx.unit), "choices": list(ev.choices), "path": path, "program": R.show(tm)[:300]},
                                      f"{ctx.spec['name']}: list {R.show(R.term(lst))[:60]} at {path} ({type(lst).__name__}) carries no labels"))
            break
        r.count("labelled_lists_checked")
        if len(lst) == 0:
            r.count("empty_lists_checked")
        want = container_labels(lst, ctx.g)
        got = (getattr(lst, "gengy_nodes", None), getattr(lst, "gengy_distance_to_term", None), getattr(lst, "gengy_weighted_nodes", None))
        ttw = getattr(lst, "gengy_types_this_way", {}) or {}
        self_ok = any(x is lst for x in ttw.get(type(lst), []))
        if got != want or not self_ok:
            r.add_violation(Violation(PROP, P.site_of(ev), "label:list-container", {"op": ev.op, "self_indexed": self_ok},
                                      {"unit": P.clean_unit(ctx.unit), "choices": list(ev.choices), "path": path, "program": R.show(tm)[:300]},
                                      f"{ctx.spec['name']}: list {R.show(R.term(lst))[:60]} at {path}: (nodes, distance, weighted) = {got}, its elements give "
                                      f"{want}; indexes itself: {self_ok}"))
            break
    nodes: list = []
    nodes_of(ev.result, nodes)
    parent_ids = set()
    for p in ev.parents:
        pn: list = []
        nodes_of(p, pn)
        parent_ids.update(id(x) for _, x in pn)
    for path, v in nodes:
        r.count("nodes_checked")
        if owns_list(v):
            r.count("nodes_owning_a_list")
            r.nontrivial += 1
        reused = id(v) in parent_ids
        if reused:
            r.count("nodes_reused_from_parent")
        n, d, w, beneath = R.ref_labels(v, ctx.g, False)
        got = (getattr(v, "gengy_nodes", None), getattr(v, "gengy_distance_to_term", None), getattr(v, "gengy_weighted_nodes", None))
        wit = {"unit": P.clean_unit(ctx.unit), "choices": list(ev.choices), "path": path, "program": R.show(tm)[:300]}
        feat = {"owns_list": owns_list(v), "op": ev.op}
        for name, a, b in (("gengy_nodes", got[0], n), ("gengy_distance_to_term", got[1], d), ("gengy_weighted_nodes", got[2], w)):
            if a != b:
                r.add_violation(Violation(PROP, P.site_of(ev), "label:" + name, feat, wit,
                                          f"{ctx.spec['name']}: node {R.show(R.term(v))[:80]} at {path}: {name} = {a}, structure gives {b}"))
        ttw = getattr(v, "gengy_types_this_way", None)
        if ttw is None:
            r.add_violation(Violation(PROP, P.site_of(ev), "label:missing-type-index", feat, wit,
                                      f"{ctx.spec['name']}: node at {path} has no gengy_types_this_way"))
            continue
        want = Counter()
        for t, x in beneath:
            if t.__module__ != "builtins":
                want[(t.__name__, id(x))] += 1
        have = Counter()
        for t, xs in ttw.items():
            if getattr(t, "__module__", "") == "builtins" or isinstance(t, str):
                continue
            if not isinstance(t, type):
                continue
            for x in xs:
                if isinstance(x, list):
                    continue
                have[(t.__name__, id(x))] += 1
                if type(x) is not t:
                    r.add_violation(Violation(PROP, P.site_of(ev), "label:type-index-wrong-key", feat, wit,
                                              f"{ctx.spec['name']}: index[{t.__name__}] holds a {type(x).__name__}"))
        if have != want:
            extra = [k[0] for k in (have - want)]
            missing = [k[0] for k in (want - have)]
            r.add_violation(Violation(PROP, P.site_of(ev), "label:type-index", dict(feat, extra=bool(extra), missing=bool(missing)), wit,
                                      f"{ctx.spec['name']}: node {R.show(R.term(v))[:80]} at {path}: type index has extra {extra[:4]} / lacks {missing[:4]}"))


def run_unit(unit) -> UnitResult:
    return P.drive(unit, oracle)


def finalize(cr):
    cr.require("nodes_checked")
    cr.require("nodes_owning_a_list")
    cr.require("nodes_reused_from_parent")
    cr.require("nodes_checked_expansion_mode")
    cr.assumptions += [
        "tree-depth mode only (expansion_depthing=False); label convention pinned by tests/representations/tree_based/relabel_test.py "
        "(field-less nodes and builtin values are terminals with all labels 0)",
    ]
