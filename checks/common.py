"""Helpers shared by the per-property checks."""
from __future__ import annotations

import os
import sys
import traceback
from typing import Any, Optional

from geneticengine.exceptions import GeneticEngineError
from geneticengine.grammar.grammar import InvalidGrammarException
from geneticengine.grammar.metahandlers.base import SynthesisException
from geneticengine.solutions.individual import IndividualNotEvaluatedException
from geneticengine.representations.tree.initializations import (
    FullDecider,
    MaxDepthDecider,
    PositionIndependentGrowDecider,
    ProgressivelyTerminalDecider,
)
from geneticengine.representations.tree.treebased import TreeBasedRepresentation
from geneticengine.representations.grammatical_evolution.ge import GrammaticalEvolutionRepresentation
from geneticengine.representations.grammatical_evolution.structured_ge import (
    StructuredGrammaticalEvolutionRepresentation,
)
from geneticengine.representations.grammatical_evolution.dynamic_structured_ge import (
    DynamicStructuredGrammaticalEvolutionRepresentation,
)
from geneticengine.representations.stackgggp import StackBasedGGGPRepresentation

LIB_ERRORS = (GeneticEngineError, SynthesisException, InvalidGrammarException, IndividualNotEvaluatedException)

DECIDERS = {
    "maxdepth": MaxDepthDecider,
    "full": FullDecider,
    "pigrow": PositionIndependentGrowDecider,
    "pt": ProgressivelyTerminalDecider,
}


def is_library_error(e: BaseException) -> bool:
    if isinstance(e, LIB_ERRORS):
        return True
    mod = type(e).__module__ or ""
    return mod.startswith("geneticengine.") or mod.startswith("geml.")


def make_decider(name: str, src, g, depth: int):
    if name == "pt":
        return ProgressivelyTerminalDecider(src, g)
    return DECIDERS[name](src, g, depth)


def exc_site(e: BaseException) -> str:
    """file:function of the innermost /repo frame (stable across line shifts)."""
    tb = traceback.extract_tb(e.__traceback__)
    for fr in reversed(tb):
        root = (os.path.realpath(os.environ.get("VERIF_REPO") or "/repo")) + "/"
        if fr.filename.startswith(root):
            return f"{fr.filename[len(root):]}:{fr.name}"
    return "?"


def exc_brief(e: BaseException) -> str:
    return f"{type(e).__name__}: {str(e)[:160]} @ {exc_site(e)}"


def type_form(t) -> str:
    """Outline of a spec TYPE, used as a violation feature: e.g. 'ann(list(ref))'."""
    if isinstance(t, str):
        return t
    k = t[0]
    if k == "ref":
        return "ref"
    if k == "ann":
        return f"ann[{t[2][0]}]({type_form(t[1])})"
    if k in ("list",):
        return f"list({type_form(t[1])})"
    return k + "(" + ",".join(type_form(x) for x in t[1:]) + ")"


def spec_type_at(spec, path: str):
    """Declared TYPE of the field reached by an error path like '$.f0[1].x' (best effort)."""
    return None


def make_rep(kind: str, g, src, depth: int, gene_length: int = 8, decider: str = "maxdepth"):
    if kind == "tree":
        return TreeBasedRepresentation(g, make_decider(decider, src, g, depth))
    if kind == "ge":
        return GrammaticalEvolutionRepresentation(g, make_decider(decider, src, g, depth), gene_length=gene_length)
    if kind == "sge":
        return StructuredGrammaticalEvolutionRepresentation(
            g, make_decider(decider, src, g, depth), gene_length=gene_length,
        )
    if kind == "dsge":
        return DynamicStructuredGrammaticalEvolutionRepresentation(g, depth)
    if kind == "stack":
        return StackBasedGGGPRepresentation(g, gene_length=gene_length)
    raise ValueError(kind)
