"""C04 -- depth-bounded creation reaches exactly the grammar's bounded language."""
from __future__ import annotations

from mc import grammars as G
from mc import refsem as R
from mc.explorer import ExploreStats, explore
from mc.harness import UnitResult, Violation
from checks.common import exc_brief, is_library_error, make_rep
from geneticengine.representations.tree.operators import FullInitializer
from geneticengine.representations.tree.treebased import TreeBasedRepresentation
from geneticengine.representations.tree.initializations import MaxDepthDecider

PROP = "C04"
TECHNIQUE = (
    "the whole random decision tree of depth-limited creation is enumerated (E1, no deviation bound) and the set of "
    "produced programs is compared, in both directions, with an independent recursive enumeration of the bounded "
    "language L(G,d); full creation against Full(G,d); PI-grow against inclusion; also after sibling grammars over the same class objects were extracted"
)
RULE = (
    "unit = finite-choice grammar x depth d (minimum .. while |L(G,d)| <= cap) x method (grow, full via FullInitializer, "
    "pi-grow); evaluations = leaves of the decision tree; distinct non-trivial = distinct programs with a nested node"
)


def units(tier, seed):
    us = []
    cap = 1500 if tier == "quick" else 20000
    for spec in G.finite_family(tier):
        us.append({"spec": spec, "cap": cap, "max_execs": 40000 if tier == "quick" else 600000,
                   "max_extra_depth": 2 if tier == "quick" else 3})
        if spec["name"].startswith("S"):
            us.append({"spec": spec, "cap": cap, "max_execs": 40000 if tier == "quick" else 600000, "max_extra_depth": 1, "siblings": True})
    # the language after a refinement was altered the documented way and the grammar extracted again
    shapes = {s["name"].split(":")[0]: s for s in G.family_shapes()}
    for base, cls_name, field, new_t in (
        ("S1", "Lit", "v", ["ann", "int", ["IntRange", 2, 2]]),
        ("S1", "Var", "n", ["ann", "str", ["VarRange", ["z", "w", "u"]]]),
        ("S9", "M", "xs", ["ann", ["list", ["ref", "C"]], ["LSB", 2, 2]]),
    ):
        us.append({"spec": shapes[base], "cap": cap, "max_execs": 40000, "max_extra_depth": 1, "reannotate": [cls_name, field, new_t]})
    return us


def reach(g, d, method, max_execs, r):
    progs = {}
    st = ExploreStats()

    def run(src):
        if method == "full":
            rep = TreeBasedRepresentation(g, MaxDepthDecider(src, g, max(d, g.get_min_tree_depth())))
            inds = list(FullInitializer(max_depth=d).initialize(None, rep, src, 1))
            return inds[0].genotype
        if method == "grow-after-initialisers":
            # the representation first serves two initialisers (each brings deciders of its own, on another source), then
            # creates with its own decider: the reachable set is still exactly L(G,d)
            from geneticengine.representations.tree.operators import GrowInitializer
            from mc.explorer import ExhaustiveSource as _ES

            rep = make_rep("tree", g, src, d)
            for init in (GrowInitializer(), FullInitializer(max_depth=max(d, g.get_min_tree_depth()))):
                try:
                    list(init.initialize(None, rep, _ES((), strict=False), 1))
                except Exception:  # noqa -- what initialisers may refuse is C03's business
                    pass
            return rep.create_genotype(src)
        dec = {"grow": "maxdepth", "pigrow": "pigrow", "fulldecider": "full"}[method]
        return make_rep("tree", g, src, d, decider=dec).create_genotype(src)

    errors = []
    for ex in explore(run, max_execs=max_execs, horizon=400, stats=st):
        r.executions += 1
        if ex.capped:
            continue
        if ex.exc is not None:
            errors.append((ex.exc, ex.choices))
            continue
        tm = R.term(ex.result)
        if tm not in progs:
            progs[tm] = ex.choices
    r.abstracted += st.abstracted_points
    return progs, errors, st.truncated or st.capped_paths > 0


def full_applicable(spec, view) -> bool:
    """The 'full' clause is only meaningful where every branch CAN be extended to the maximum depth:
    every abstract type recursive, every node-valued field of an abstract recursive type (a field
    of concrete class type, a possibly-empty list, or a union with a base-type alternative ends a
    branch early whatever the decider does)."""
    if not view.abstract or not (view.abstract <= R.ref_recursive(spec)):
        return False
    if spec["start"] not in view.abstract:
        return False
    for p in spec["prods"]:
        for _, ft in p[3]:
            if R.may_be_empty_list(ft):
                return False
            for t in G.walk_type(ft):
                if isinstance(t, list) and t[0] == "ref" and t[1] not in view.abstract:
                    return False
                if isinstance(t, list) and t[0] == "union":
                    return False
    return True


def has_empty_list(t) -> bool:
    if not isinstance(t, tuple):
        return False
    if t == ("[]",):
        return True
    return any(has_empty_list(x) for x in t[1:])


def run_unit(unit) -> UnitResult:
    r = UnitResult()
    spec = unit["spec"]
    if unit.get("reannotate"):
        from checks import producers as P

        ctx = P.open_ctx(dict(unit, kind="tree-create"))
        b, g, spec = ctx.bundle, ctx.g, ctx.spec
        if g is None:
            r.count("extract_failed")
            b.cleanup()
            return r
    else:
        b = G.build(spec)
        g = None
    try:
        try:
            g = g if g is not None else b.extract()
        except Exception:
            r.count("extract_failed")
            return r
        if unit.get("siblings") and not unit.get("reannotate"):
            # other grammars over the same class objects (one production left out each) are extracted before g is used
            from geneticengine.grammar.grammar import extract_grammar

            for drop in [p[0] for p in spec["prods"]]:
                try:
                    extract_grammar([c for c in b.considered if c.__name__ != drop], b.start)
                    r.count("sibling_grammars_extracted")
                except Exception:  # noqa
                    pass
        m = R.ref_min_depth(spec)[spec["start"]]
        if m >= R.INF:
            return r
        view = R.SpecView(spec)
        all_rec = full_applicable(spec, view)
        for d in range(m, m + unit["max_extra_depth"] + 1):
            try:
                lang = R.language(spec, d, cap=unit["cap"])
            except R.TooLarge:
                r.count("depth_iteration_stopped_by_language_cap")
                break
            L = {t for t, _ in lang}
            w = {"unit": {"spec": spec, "cap": unit["cap"], "max_execs": unit["max_execs"], "max_extra_depth": unit["max_extra_depth"]},
                 "depth": d}
            methods = ["grow", "pigrow"] + (["full"] if all_rec else [])
            if unit.get("siblings"):
                methods = ["grow", "grow-after-initialisers"]
            for method in methods:
                try:
                    progs, errors, trunc = reach(g, d, method, unit["max_execs"], r)
                except Exception as e:  # constructor refused the limit etc. -- C03's business
                    r.count("method_unavailable")
                    continue
                foreign = [(e, c) for e, c in errors if not is_library_error(e)]
                if foreign:
                    e, c = foreign[0]
                    r.add_violation(Violation(PROP, f"create[{method}]", "decision-path-raises", {"method": method, "exc": type(e).__name__},
                                              dict(w, method=method, choices=list(c)),
                                              f"{spec['name']} d={d} {method}: {len(foreign)} of the decision paths die with {exc_brief(e)} "
                                              f"instead of producing a member of L(G,{d})"))
                if trunc:
                    r.count("decision_tree_not_exhausted")
                    r.truncated = True
                    continue
                r.count(f"sets_compared_{method}")
                got = set(progs)
                r.states += len(got)
                r.nontrivial += sum(1 for t in got if any(isinstance(x, tuple) and x[0] not in ("int", "bool", "float", "str") for x in t[1:]))
                if len(r.samples) < 2:
                    r.samples.append({"grammar": spec["name"], "depth": d, "method": method, "|L|": len(L),
                                      "reached": len(got), "example": R.show(next(iter(got)))[:120] if got else None})
                invalid = got - L
                if invalid:
                    t = sorted(invalid, key=repr)[0]
                    r.add_violation(Violation(PROP, f"create[{method}]", "reachable-outside-language", {"method": method},
                                              dict(w, method=method, choices=list(progs[t]), program=R.show(t)),
                                              f"{spec['name']} d={d} {method}: produced {R.show(t)[:200]} which is not in L(G,{d}) (|L|={len(L)})"))
                if method in ("grow", "grow-after-initialisers"):
                    missing = L - got
                    if missing:
                        t = sorted(missing, key=lambda x: (R.term_depth(x), repr(x)))[0]
                        cause = "empty-list-at-depth-frontier" if all(has_empty_list(x) for x in missing) else "other"
                        r.add_violation(Violation(PROP, "create[grow]", "unreachable-valid-program", {"method": "grow", "cause": cause, "after_initialisers": method != "grow"},
                                                  dict(w, method=method, program=R.show(t), missing=len(missing)),
                                                  f"{spec['name']} d={d} grow: {len(missing)} of {len(L)} valid programs are unreachable, e.g. {R.show(t)[:200]}"))
                if method == "full":
                    F = set(R.full_members(lang, d))
                    if not F:
                        # no program has all its branches ending at depth d (e.g. d lies between two achievable full
                        # depths): the clause says nothing, whatever full creation returns must just be in L(G,d)
                        r.count("full_clause_vacuous_at_this_depth")
                    elif got != F:
                        extra = sorted(got - F, key=repr)[:1]
                        miss = sorted(F - got, key=repr)[:1]
                        r.add_violation(Violation(PROP, "create[full]", "full-set-differs",
                                                  {"extra": bool(got - F), "missing": bool(F - got)},
                                                  dict(w, method=method, extra=[R.show(t) for t in extra], missing=[R.show(t) for t in miss]),
                                                  f"{spec['name']} d={d} full: {len(got - F)} programs with a short branch "
                                                  f"{[R.show(t)[:100] for t in extra]}, {len(F - got)} full programs unreachable {[R.show(t)[:100] for t in miss]}"))
    finally:
        b.cleanup()
    return r


def finalize(cr):
    cr.require("sets_compared_grow")
    cr.require("sets_compared_pigrow")
    cr.require("sets_compared_full")
    cr.assumptions += [
        "finite-choice family only (mc.grammars.finite_family); float/str/int fields appear only under finite refinements",
        "WeightedStringHandler draws are wide (0..1e5): landmark + threshold hints hit every letter class, not every integer",
        "'full' is FullInitializer(max_depth=d), the documented entry point; FullDecider used directly fills to d-1 by design of that pair",
    ]
