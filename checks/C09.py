"""C09 -- operators and steps never modify their inputs."""
from __future__ import annotations

import itertools

from geneticengine.algorithms.gp.operators.combinators import (
    ExclusiveParallelStep, IdentityStep, ParallelStep, SequenceStep,
)
from geneticengine.algorithms.gp.operators.crossover import GenericCrossoverStep
from geneticengine.algorithms.gp.operators.elitism import ElitismStep
from geneticengine.algorithms.gp.operators.mutation import GenericMutationStep
from geneticengine.algorithms.gp.operators.novelty import NoveltyStep
from geneticengine.algorithms.gp.operators.selection import LexicaseSelection, TournamentSelection
from geneticengine.evaluation.sequential import SequentialEvaluator
from geneticengine.problems import MultiObjectiveProblem, SingleObjectiveProblem
from geneticengine.solutions.individual import Individual

from mc import grammars as G
from mc import refsem as R
from mc.explorer import ExhaustiveSource, ExploreStats, explore, gene_domain
from mc.harness import UnitResult, Violation
from mc.snapshot import diff_snap, genotype_snapshot, tree_snapshot
from mc.statespace import StateSpace
from mc.stubrep import StubGenotype, StubRepresentation
from checks import producers as P
from checks.common import exc_brief, is_library_error, make_rep

PROP = "C09"
TECHNIQUE = (
    "explicit-state search (E2) over create/mutate/crossover for all five representations with a heap-wide snapshot "
    "invariant (no object ever returned changes later), and exhaustive/deviation-bounded exploration (E1) of every "
    "built-in step and combinator applied to evaluated populations, comparing deep snapshots of every input before/after"
)
RULE = (
    "(a) E2 units: grammar x representation, K<=2-3 operations, parents snapshotted before and after each call and all "
    "states re-verified; (b) step units: step term x population (size 2-4, stub or tree genotypes, evaluated or not) x "
    "all random answers up to a deviation bound; non-trivial = operator call whose parents differ / step call that "
    "returned an individual object also present in the input"
)

STEP_TERMS = [
    "elitism", "novelty", "tournament2", "tournament2r", "tournament5", "mutation1", "mutation05", "crossover1", "crossover05",
    "identity", "seq(tournament2,crossover1,mutation1)", "par(elitism,novelty,seq)", "xpar(mutation1,crossover1)", "lexicase",
    "seq(lexicase,mutation1)", "default", "evaluate", "seq(tournament2,evaluate,mutation1)",
]


def make_step(term):
    from geneticengine.algorithms.gp.gp import default_generic_programming_step

    t = term
    if t == "elitism":
        return ElitismStep()
    if t == "novelty":
        return NoveltyStep()
    if t == "tournament2":
        return TournamentSelection(2)
    if t == "tournament2r":
        return TournamentSelection(2, with_replacement=True)
    if t == "tournament5":
        return TournamentSelection(5)
    if t == "mutation1":
        return GenericMutationStep(1)
    if t == "mutation05":
        return GenericMutationStep(0.5)
    if t == "crossover1":
        return GenericCrossoverStep(1)
    if t == "crossover05":
        return GenericCrossoverStep(0.5)
    if t == "identity":
        return IdentityStep()
    if t == "evaluate":
        from geneticengine.algorithms.gp.operators.evaluation import EvaluateStep

        return EvaluateStep()
    if t == "seq(tournament2,evaluate,mutation1)":
        from geneticengine.algorithms.gp.operators.evaluation import EvaluateStep

        return SequenceStep(TournamentSelection(2), EvaluateStep(), GenericMutationStep(1))
    if t == "lexicase":
        return LexicaseSelection()
    if t == "seq(lexicase,mutation1)":
        return SequenceStep(LexicaseSelection(), GenericMutationStep(1))
    if t == "seq(tournament2,crossover1,mutation1)":
        return SequenceStep(TournamentSelection(2), GenericCrossoverStep(1), GenericMutationStep(1))
    if t == "par(elitism,novelty,seq)":
        return ParallelStep([ElitismStep(), NoveltyStep(), SequenceStep(TournamentSelection(2), GenericCrossoverStep(1), GenericMutationStep(1))], [1, 1, 2])
    if t == "xpar(mutation1,crossover1)":
        return ExclusiveParallelStep([GenericMutationStep(1), GenericCrossoverStep(1)])
    if t == "default":
        return default_generic_programming_step()
    raise ValueError(t)


def units(tier, seed):
    us = []
    fam = G.general_family(tier)
    sel = [s for s in fam if s["name"].split(":")[0] in ("S1", "S2", "S5", "S7", "S8", "S9", "S11", "S12", "S14", "S15", "S17")]
    sel += [s for s in fam if s["name"].startswith(("F1:", "G1:"))]
    if tier != "quick":
        sel = fam
    for spec in sel:
        for rep in ("tree", "ge", "sge", "dsge", "stack"):
            us.append({"kind": "e2", "spec": spec, "rep": rep, "depth_off": 1, "L": 3 if rep == "stack" else 2,
                       "K": 2 if tier == "quick" else 3, "max_states": 25 if tier == "quick" else 80,
                       "max_execs_per_op": 60 if tier == "quick" else 300})
    sizes = (2, 3, 4)
    for term in STEP_TERMS:
        for n in sizes:
            for evaluated in (True, False):
                us.append({"kind": "step", "term": term, "n": n, "evaluated": evaluated, "rep": "stub",
                           "max_dev": 2 if tier == "quick" else 3, "max_execs": 3000 if tier == "quick" else 40000})
        us.append({"kind": "step", "term": term, "n": 3, "evaluated": True, "rep": "tree", "max_dev": 1 if tier == "quick" else 2,
                   "max_execs": 600 if tier == "quick" else 5000})
        # unusual but legal fitness values in the cached fitness of the inputs: NaN and infinities
        for n in (3, 4):
            us.append({"kind": "step", "term": term, "n": n, "evaluated": True, "rep": "stub", "special_values": True,
                       "max_dev": 2 if tier == "quick" else 3, "max_execs": 1500 if tier == "quick" else 20000})
    return us


# ---------------------------------------------------------------------------------------
def run_e2(unit) -> UnitResult:
    r = UnitResult()
    ctx = P.open_ctx(unit)
    try:
        if ctx.g is None:
            return r
        rep_kind = unit["rep"]
        d = P.unit_depth(ctx)
        L = unit.get("L", 2)
        skw = {}
        if rep_kind == "stack":
            skw = {"wide_domain": gene_domain(P.stack_alphabet(ctx.g))}
        elif rep_kind in ("ge", "sge"):
            skw = {"wide_domain": gene_domain(P.GENES)}
        elif rep_kind == "dsge":
            skw = {"wide_domain": gene_domain(P.GENES_DSGE)}

        def mk(src):
            return make_rep(rep_kind, ctx.g, src, d, gene_length=L)

        ss = StateSpace(mk, max_states=unit["max_states"], max_execs_per_op=unit["max_execs_per_op"], max_partners=4,
                        horizon=400, source_kwargs=skw, post=P.dsge_populate if rep_kind == "dsge" else None)
        pre: dict = {}

        def snap(o):
            return genotype_snapshot(o)

        site = {"mutate": f"{rep_kind}.mutate", "crossover": f"{rep_kind}.crossover", "create": f"{rep_kind}.create_genotype"}
        if rep_kind == "tree":
            site = {"mutate": "TreeBasedRepresentation.mutate", "crossover": "TreeBasedRepresentation.crossover",
                    "create": "TreeBasedRepresentation.create_genotype"}

        def on_tr(tr):
            r.executions += 1
            if tr.op == "create":
                return
            r.count("operator_calls")
            if len(tr.parents) == 2 and tr.parents[0] != tr.parents[1]:
                r.nontrivial += 1
            for idx, obj in zip(tr.parents, tr.parent_objs):
                now = snap(obj)
                if now != ss.snaps[idx]:
                    dd = diff_snap(ss.snaps[idx], now)
                    r.add_violation(Violation(PROP, site[tr.op], "input-modified", {"rep": rep_kind, "what": _what(dd)},
                                              {"unit": P.clean_unit(unit), "choices": list(tr.choices), "history": ss.history(idx)},
                                              f"{ctx.spec['name']}: {tr.op} changed its argument: {dd[:300]}"))
                    ss.snaps[idx] = now  # report once
            if rep_kind != "tree" and tr.exc is None:
                # mapping an offspring must not touch the parents either (dSGE may grow its OWN gene lists by suffix)
                outs = tr.result if isinstance(tr.result, tuple) else (tr.result,)
                for o in outs:
                    before = snap(o)
                    try:
                        mk(ExhaustiveSource((), **skw)).genotype_to_phenotype(o)
                    except BaseException:  # noqa
                        pass
                    after = snap(o)
                    if before != after and not (rep_kind == "dsge" and _suffix_growth(before, after)):
                        r.add_violation(Violation(PROP, f"{rep_kind}.genotype_to_phenotype", "input-modified", {"rep": rep_kind, "what": "genes"},
                                                  {"unit": P.clean_unit(unit), "choices": list(tr.choices)},
                                                  f"{ctx.spec['name']}: mapping changed the genotype: {diff_snap(before, after)[:200]}"))

        # dSGE: mapping extends genotypes; states are snapshotted after their own first mapping
        st = ss.run(unit["K"], on_tr)
        for i, s0, s1 in ss.verify_heap():
            if rep_kind == "dsge" and _suffix_growth(s0, s1):
                continue
            dd = diff_snap(s0, s1)
            r.add_violation(Violation(PROP, f"{site['mutate'].rsplit('.', 1)[0]}.<later operation>", "returned-object-changed-later",
                                      {"rep": rep_kind, "what": _what(dd)},
                                      {"unit": P.clean_unit(unit), "history": ss.history(i)},
                                      f"{ctx.spec['name']}: a genotype returned earlier changed afterwards: {dd[:300]}"))
        r.states = st.states
        r.truncated = st.explore.truncated or st.state_cap_hit
        r.capped = st.explore.capped_paths
        r.abstracted = st.explore.abstracted_points
        if ss.states and len(r.samples) < 1:
            r.samples.append({"grammar": ctx.spec["name"], "rep": rep_kind, "states": st.states, "transitions": st.transitions,
                              "fixed_point": st.fixed_point})
    finally:
        ctx.bundle.cleanup()
    return r


def _what(d: str) -> str:
    return "labels" if "[1]" in d[:12] else "structure"


def _suffix_growth(a, b) -> bool:
    try:
        if a[0] != "dict" or b[0] != "dict":
            return False
        da, db = dict(a[1]), dict(b[1])
        for k, v in da.items():
            if k not in db or tuple(db[k][: len(v)]) != tuple(v):
                return False
        return True
    except Exception:
        return False


# ---------------------------------------------------------------------------------------
def ind_snap(ind, problems):
    fit = []
    for p in problems:
        # (compared through repr: NaN is a legal fitness value and is not equal to itself)
        fit.append((repr(ind.get_fitness(p).maximizing_aggregate), tuple(repr(x) for x in ind.get_fitness(p).fitness_components)) if ind.has_fitness(p) else None)
    ph = ind.phenotype
    return {
        "genotype": genotype_snapshot(ind.genotype) if not isinstance(ind.genotype, StubGenotype) else ("stub", ind.genotype.v, ind.genotype.serial),
        "phenotype": None if ph is None else (tree_snapshot(ph) if not hasattr(ph, "v") else ("stub", ph.v)),
        "metadata": tuple(sorted((k, repr(v)) for k, v in ind.metadata.items())),
        "fitness": tuple(fit),
        "representation": id(ind.representation),
    }


def cache_aware_diff(before, after) -> str:
    """'' if after equals before up to filling an EMPTY phenotype / fitness cache."""
    if before["genotype"] != after["genotype"]:
        return "genotype: " + diff_snap(before["genotype"], after["genotype"])
    if before["phenotype"] is not None and before["phenotype"] != after["phenotype"]:
        return "cached phenotype changed"
    if before["metadata"] != after["metadata"]:
        return f"metadata {before['metadata']} -> {after['metadata']}"
    for i, (a, b) in enumerate(zip(before["fitness"], after["fitness"])):
        if a is not None and a != b:
            return f"cached fitness {a} -> {b}"
    if before["representation"] != after["representation"]:
        return "representation replaced"
    return ""


TREE_SPEC = None


def run_step(unit) -> UnitResult:
    r = UnitResult()
    term = unit["term"]
    n = unit["n"]
    lexi = "lexicase" in term
    bundle = None
    try:
        if unit["rep"] == "tree":
            spec = [s for s in G.family_shapes() if s["name"].startswith("S11")][0]  # lists of nodes: aliasing risk
            bundle = G.build(spec)
            g = bundle.extract()
        table1 = [2, 0, 1]
        table2 = [[0, 2], [2, 0], [1, 1]]
        if unit.get("special_values"):
            nan, inf = float("nan"), float("inf")
            table1 = [inf, -inf, 1]
            table2 = [[nan, 2], [2, -inf], [1, nan]]

        def run(src):
            if unit["rep"] == "tree":
                rep = make_rep("tree", g, src, 3)
                init = ExhaustiveSource((0, 1, 1, 1, 0, 0) * 4, strict=False)
                genos = []
                for i in range(n):
                    genos.append(make_rep("tree", g, ExhaustiveSource([i % 3, i % 2, 1, 0, 1, 0, 0, 0], strict=False), 3)
                                 .create_genotype(ExhaustiveSource([i % 3, i % 2, 1, 0, 1, 0, 0, 0], strict=False)))

                def ff1(p):
                    return float(getattr(p, "gengy_nodes", 0) % 3)

                def ff2(p):
                    return [float(getattr(p, "gengy_nodes", 0) % 3), float(getattr(p, "gengy_distance_to_term", 0) % 2)]
            else:
                rep = StubRepresentation(2)
                genos = [rep._new(i % 3) for i in range(n)]

                def ff1(p):
                    return table1[p.v]

                def ff2(p):
                    return table2[p.v]

            problem = MultiObjectiveProblem([False, True], ff2) if lexi else SingleObjectiveProblem(ff1, minimize=False)
            other = SingleObjectiveProblem(ff1, minimize=True)
            pop = [Individual(gt, rep) for gt in genos]
            ev = SequentialEvaluator()
            if unit["evaluated"]:
                ev.evaluate(problem, pop)
                ev.evaluate(other, pop[:1])
            elif lexi:
                ev.evaluate(problem, pop[:1])  # number_of_objectives() must be known
            before = [ind_snap(i, (problem, other)) for i in pop]
            members = list(pop)
            step = make_step(term)
            out = list(step.apply(problem, ev, rep, src, pop, n, 1))
            after = [ind_snap(i, (problem, other)) for i in members]
            container_ok = len(pop) == len(members) and all(x is y for x, y in zip(pop, members))
            # ... and what happens to the inputs when the OUTPUT is used as the search loop uses it: the next Population
            # stamps and evaluates every output individual, and an evaluation for a further problem (nobody but the harness
            # knows it) is recorded on the outputs only
            aliasing = []
            try:
                from geneticengine.algorithms.gp.population import Population
                from geneticengine.evaluation.tracker import MultiObjectiveProgressTracker as _MT, SingleObjectiveProgressTracker as _ST

                survivors = [m for m in members if any(m is o for o in out)]
                meta0 = [tuple(sorted((k, repr(v)) for k, v in m.metadata.items())) for m in members]
                probe = SingleObjectiveProblem(lambda p: 42.0)
                SequentialEvaluator().evaluate(probe, [o for o in out if all(o is not m for m in members)])
                Population(iter(out), (_MT if lexi else _ST)(problem, SequentialEvaluator()), generation=7)
                for k, m in enumerate(members):
                    if all(m is not sv for sv in survivors):
                        meta1 = tuple(sorted((kk, repr(v)) for kk, v in m.metadata.items()))
                        if meta1 != meta0[k]:
                            aliasing.append((k, f"metadata {meta0[k]} -> {meta1} although the individual is not part of the output"))
                        if m.has_fitness(probe):
                            aliasing.append((k, "carries a fitness for a problem that only output individuals were evaluated for"))
            except Exception:  # noqa
                pass
            return before, after, members, out, container_ok, len(pop), aliasing

        st = ExploreStats()
        for ex in explore(run, max_dev=unit["max_dev"], max_execs=unit["max_execs"], horizon=3000, stats=st):
            r.executions += 1
            if ex.capped:
                continue
            if ex.exc is not None:
                r.count("step_raised(other properties' business)")
                continue
            before, after, pop, out, container_ok, left, aliasing = ex.result
            for k, what in aliasing[:1]:
                r.add_violation(Violation(PROP, f"step[{term}].apply", "input-individual-shares-state-with-output", {"term": term, "rep": unit["rep"]},
                                          {"unit": unit, "choices": list(ex.choices), "individual": k},
                                          f"{term} on {n} {'evaluated' if unit['evaluated'] else 'fresh'} individuals, output then used by the next population: "
                                          f"input individual {k} {what}"))
            r.count("step_applications")
            if not container_ok:
                r.add_violation(Violation(PROP, f"step[{term}].apply", "input-population-container-modified", {"term": term, "rep": unit["rep"]},
                                          {"unit": unit, "choices": list(ex.choices)},
                                          f"{term} on a list of {n} individuals: the caller's list has {left} members afterwards / other order"))
            if any(o is p for o in out for p in pop):
                r.nontrivial += 1
            for k, (b, a) in enumerate(zip(before, after)):
                dd = cache_aware_diff(b, a)
                if dd:
                    r.add_violation(Violation(PROP, f"step[{term}].apply", "input-individual-modified", {"term": term, "rep": unit["rep"]},
                                              {"unit": unit, "choices": list(ex.choices), "individual": k},
                                              f"{term} on {n} {'evaluated' if unit['evaluated'] else 'fresh'} individuals: individual {k}: {dd[:300]}"))
        r.states = st.executions
        r.truncated = st.truncated
        r.abstracted = st.abstracted_points
        if len(r.samples) < 1:
            r.samples.append({"step": term, "population": n, "evaluated": unit["evaluated"], "rep": unit["rep"], "executions": st.executions})
    finally:
        if bundle is not None:
            bundle.cleanup()
    return r


def run_unit(unit) -> UnitResult:
    if unit["kind"] == "e2":
        return run_e2(unit)
    return run_step(unit)


def finalize(cr):
    cr.require("operator_calls")
    cr.require("step_applications")
    cr.assumptions += [
        "filling an EMPTY phenotype / fitness cache is not a modification; dynamic SGE gene lists may grow by suffix during mapping",
        "step units use deviation bound 2 (quick) / 3 (thorough) on the random answers",
    ]
