"""C06 -- crossover recombines parental material; point mutation is local."""
from __future__ import annotations

import itertools

from mc import grammars as G
from mc import refsem as R
from mc.explorer import ExhaustiveSource, ExploreStats, explore, gene_domain, MAXSIZE
from mc.harness import UnitResult, Violation
from checks import producers as P
from checks.common import exc_brief, is_library_error, make_rep

PROP = "C06"
TECHNIQUE = (
    "exhaustive enumeration: all ordered parent pairs drawn from the grammar's creatable programs (tree) or from the "
    "gene space A^L (linear / structured), times every random answer of the operator (E1); each child is related "
    "structurally to its parents by an independent oracle (single-subtree replacement / per-locus provenance / Hamming <= 1)"
)
RULE = (
    "tree: parents = every program grow creates at depth min+1 (capped), child must equal p1[pos := s] for a position "
    "of p1 and a subtree s of p2 admissible at that position; linear: child[i] in {p1[i], p2[i]} and equal length; "
    "structured: per key the child's list is p1's or p2's; mutation: same shape, Hamming <= 1; non-trivial = pair with "
    "p1 != p2 / child different from both parents"
)


def units(tier, seed):
    us = []
    fam = G.general_family(tier)
    tree_specs = [s for s in fam if s["name"].split(":")[0] in ("S1", "S2", "S3", "S5", "S9", "S11", "S12", "S14", "S15", "S16", "S26")
                  and not s.get("stringify")]
    tree_specs += [s for s in fam if s["name"].startswith("F1:")]
    if tier != "quick":
        tree_specs = [s for s in G.finite_family(tier)]
    for spec in tree_specs:
        us.append({"kind": "tree", "spec": spec, "max_parents": 8 if tier == "quick" else 20,
                   "max_execs": 150 if tier == "quick" else 1000})
        if spec["name"].split(":")[0] in ("S5", "S26", "S1", "S2"):
            # parents that are deeper than the limit of the decider the crossover runs with (a population from
            # FullInitializer(6) crossed over by a representation limited to 3, create_genotype(decider=...), ...)
            us.append({"kind": "tree", "spec": spec, "max_parents": 8 if tier == "quick" else 20,
                       "max_execs": 150 if tier == "quick" else 1000, "shallow_xo": True})
    lin_specs = [s for s in fam if s["name"].split(":")[0] in ("S1", "S2", "S8", "S12")] + [s for s in fam if s["name"] in ("F1:14", "F1:13")]
    for spec in lin_specs:
        for rep in ("ge", "stack", "sge", "dsge"):
            for L in (1, 2, 3) if rep in ("ge", "stack") else (2,):
                us.append({"kind": "linear", "spec": spec, "rep": rep, "L": L})
    return us


def positions(view, v, t, path=()):
    """(path, declared TYPE, value) for every replaceable position of a program (nodes, not base values)."""
    out = []
    if isinstance(t, str):
        return out
    k = t[0]
    if k == "ref":
        out.append((path, t, v))
        cn = type(v).__name__
        fields = view.types.get(cn)
        if fields:
            for fn, ft in fields:
                out.extend(positions(view, getattr(v, fn), ft, path + (fn,)))
    elif k == "list":
        if isinstance(v, list):
            for i, x in enumerate(v):
                out.extend(positions(view, x, t[1], path + (i,)))
    elif k == "tuple":
        if isinstance(v, tuple):
            for i, (x, tt) in enumerate(zip(v, t[1:])):
                out.extend(positions(view, x, tt, path + (i,)))
    elif k == "union":
        for alt in t[1:]:
            if not R.check_value(view, v, alt, None, what=("type",)):
                out.extend(positions(view, v, alt, path))
                break
    elif k == "ann":
        out.extend(positions(view, v, t[1], path))
    return out


def replace_term(tm, t, view, path, new_tm):
    """Term of the program with the subterm at `path` replaced."""
    if not path:
        return new_tm
    raise NotImplementedError


def subterms(tm):
    out = [tm]
    if isinstance(tm, tuple):
        for x in tm[1:]:
            if isinstance(x, tuple):
                out.extend(subterms(x))
    return out


def term_paths(tm, path=()):
    """All (path, subterm) of a term, path = child indices."""
    out = [(path, tm)]
    if isinstance(tm, tuple) and tm[0] not in ("int", "bool", "float", "str"):
        for i, x in enumerate(tm[1:]):
            out.extend(term_paths(x, path + (i,)))
    return out


def term_replace(tm, path, new):
    if not path:
        return new
    i = path[0]
    xs = list(tm[1:])
    xs[i] = term_replace(xs[i], path[1:], new)
    return (tm[0],) + tuple(xs)


def is_node_term(tm):
    return isinstance(tm, tuple) and tm[0] not in ("int", "bool", "float", "str", "[]", "()", "None") and not tm[0].startswith("<")


def explains(child, p1, p2) -> bool:
    """child == p1[pos := s] for some node position pos of p1 and some node subterm s of p2 with the same
    production head family (type admissibility is implied when child is well-typed, which C01 checks)."""
    donors = {s for s in subterms(p2) if is_node_term(s)}
    for path, sub in term_paths(p1):
        if not is_node_term(sub):
            continue
        # the child must agree with p1 outside `path`: compare by substituting the child's own subterm there
        try:
            csub = child
            for i in path:
                csub = csub[1:][i]
        except Exception:
            continue
        if csub in donors and term_replace(p1, path, csub) == child:
            return True
    return False


def run_tree(unit) -> UnitResult:
    r = UnitResult()
    ctx = P.open_ctx(unit)
    try:
        g = ctx.g
        if g is None:
            return r
        d = g.get_min_tree_depth() + (2 if ctx.spec["name"].startswith("S26") else 1)
        d_xo = d
        if unit.get("shallow_xo"):
            d_xo = g.get_min_tree_depth()
            d = d + 2
        parents = []
        seen = set()
        st = ExploreStats()

        def create(src):
            return make_rep("tree", g, src, d).create_genotype(src)

        for ex in explore(create, max_execs=2000, horizon=300, stats=st):
            if ex.exc is None and not ex.capped:
                tm = R.term(ex.result)
                if tm not in seen:
                    seen.add(tm)
                    parents.append((ex.result, tm))
        # prefer structurally rich parents: sort by size descending, keep a spread
        parents.sort(key=lambda x: (-len(repr(x[1])), repr(x[1])))
        keep = parents[: unit["max_parents"] // 2] + parents[-(unit["max_parents"] - unit["max_parents"] // 2):]
        uniq = []
        for p in keep:
            if all(p[1] != q[1] for q in uniq):
                uniq.append(p)
        parents = uniq
        # second generation: offspring of a first crossover (live objects, possibly sub-nodes of an earlier parent)
        # are used as parents too
        second = []
        if ctx.spec["start"] not in ctx.view.abstract:
            from mc.explorer import ExhaustiveSource as _ES

            seen2 = {t for _, t in parents}
            for (a, ta), (b, tb) in itertools.product(parents[:4], repeat=2):
                for choices in ((), (1,), (2,), (0, 1)):
                    try:
                        kids = make_rep("tree", g, _ES(choices, strict=False), d_xo).crossover(_ES(choices, strict=False), a, b)
                    except Exception:  # noqa
                        continue
                    for kch in kids:
                        tk = R.term(kch)
                        # by identity, not by term: what matters is the live object (and the metadata it carries)
                        if all(kch is not x for x, _ in parents) and all(kch is not x for x, _ in second) and len(second) < 8:
                            second.append((kch, tk))
        pairs = list(itertools.product(parents, repeat=2))
        pairs += [(p, c) for p in parents[:4] for c in second] + [(c, p) for p in parents[:4] for c in second]
        for (a, ta), (b, tb) in pairs:
            def xo(src, a=a, b=b):
                return make_rep("tree", g, src, d_xo).crossover(src, a, b)

            st2 = ExploreStats()
            for ex in explore(xo, max_execs=unit["max_execs"], horizon=300, stats=st2):
                r.executions += 1
                if ex.capped or ex.exc is not None:
                    r.count("crossover_raised_or_capped")
                    continue
                c1, c2 = ex.result
                r.count("tree_crossovers")
                if ta != tb:
                    r.count("pairs_with_different_parents")
                for child, p1, p2, which in ((c1, ta, tb, 1), (c2, tb, ta, 2)):
                    tc = R.term(child)
                    if tc != p1 and tc != p2:
                        r.nontrivial += 1
                    if not explains(tc, p1, p2):
                        fresh = not any(s in set(subterms(p2)) | set(subterms(p1)) for s in subterms(tc) if is_node_term(s) and s != tc)
                        r.add_violation(Violation(
                            PROP, "TreeBasedRepresentation.crossover", "child-not-parental-material",
                            {"start_abstract": ctx.spec["start"] in ctx.view.abstract, "child_is_clone_of_p1": tc == p1},
                            {"unit": P.clean_unit(unit), "choices": list(ex.choices), "p1": R.show(p1), "p2": R.show(p2), "child": R.show(tc)},
                            f"{ctx.spec['name']}: child {which} = {R.show(tc)[:120]} is not p1 {R.show(p1)[:100]} with one subtree "
                            f"replaced by a subtree of p2 {R.show(p2)[:100]}"))
            r.truncated = r.truncated or st2.truncated
        r.states = len(parents)
        if parents and len(r.samples) < 1:
            r.samples.append({"grammar": ctx.spec["name"], "parents": [R.show(t)[:80] for _, t in parents[:4]]})
    finally:
        ctx.bundle.cleanup()
    return r


def run_linear(unit) -> UnitResult:
    r = UnitResult()
    ctx = P.open_ctx(unit)
    try:
        g = ctx.g
        if g is None:
            return r
        rep_kind = unit["rep"]
        L = unit["L"]
        d = g.get_min_tree_depth() + 1
        if rep_kind == "stack":
            alpha = [0, 1, 100001]
            skw = {"wide_domain": gene_domain([0, 1, 100001, 7])}
        elif rep_kind == "dsge":
            alpha = [0, 1, 1024]
            skw = {"wide_domain": gene_domain([0, 1, 1024, 7])}
        else:
            alpha = [0, 1, MAXSIZE]
            skw = {"wide_domain": gene_domain([0, 1, MAXSIZE, 7])}

        def mk(src):
            return make_rep(rep_kind, g, src, d, gene_length=L)

        # parents: every genotype the representation can create over the alphabet
        genos = []
        seen = set()
        st = ExploreStats()

        def create(src):
            rep = mk(src)
            gt = rep.create_genotype(src)
            if rep_kind == "dsge":
                try:
                    rep.genotype_to_phenotype(gt)  # dSGE genotypes only get genes when mapped
                except Exception:
                    pass
            return gt

        from mc.snapshot import genotype_snapshot

        for ex in explore(create, max_execs=400, horizon=300, stats=st, source_kwargs={"wide_domain": gene_domain(alpha)}):
            if ex.exc is None and not ex.capped:
                k = genotype_snapshot(ex.result)
                if k not in seen:
                    seen.add(k)
                    genos.append(ex.result)
        genos = genos[:12]

        def shape(gt):
            dna = gt.dna
            if isinstance(dna, dict):
                return {str(getattr(k, "__name__", k)): list(v) for k, v in dna.items()}
            return list(dna)

        for a, b in itertools.product(genos, repeat=2):
            sa, sb = shape(a), shape(b)

            def xo(src, a=a, b=b):
                return mk(src).crossover(src, a, b)

            for ex in explore(xo, max_execs=600, horizon=300, stats=ExploreStats(), source_kwargs=skw):
                r.executions += 1
                if ex.exc is not None or ex.capped:
                    if ex.exc is not None and not is_library_error(ex.exc):
                        r.add_violation(Violation(PROP, f"{rep_kind}.crossover", "raised", {"exc": type(ex.exc).__name__, "L": L},
                                                  {"unit": P.clean_unit(unit), "choices": list(ex.choices), "p1": sa, "p2": sb},
                                                  f"{rep_kind} crossover of {sa} and {sb}: {exc_brief(ex.exc)}"))
                    continue
                r.count("linear_crossovers")
                if sa != sb:
                    r.count("pairs_with_different_parents")
                for child, p1, p2 in ((ex.result[0], sa, sb), (ex.result[1], sb, sa)):
                    sc = shape(child)
                    if sc != p1 and sc != p2:
                        r.nontrivial += 1
                    if isinstance(child.dna, dict):
                        stale = [k for k in child.dna if not any(k is k0 or k == k0 for k0 in list(a.dna) + list(b.dna))]
                        if stale:
                            r.add_violation(Violation(PROP, f"{rep_kind}.crossover", "gene-locus-changed", {"L": L},
                                                      {"unit": P.clean_unit(unit), "choices": list(ex.choices), "p1": p1, "p2": p2, "child": sc},
                                                      f"{rep_kind} crossover: the child's genes for {stale[:2]} sit under a key "
                                                      f"that is not (equal to) any key of the parents"))
                    why = None
                    if isinstance(sc, list):
                        if len(sc) != len(p1):
                            why = f"length {len(sc)} != {len(p1)}"
                        elif any(c != x and c != y for c, x, y in zip(sc, p1, p2)):
                            why = "a gene comes from neither parent at its locus"
                    else:
                        # a missing key and an empty gene list are the same thing (dSGE extends on demand)
                        for k in set(sc) | set(p1) | set(p2):
                            if sc.get(k, []) != p1.get(k, []) and sc.get(k, []) != p2.get(k, []):
                                why = f"genes of key {k} are neither parent's"
                    if why:
                        r.add_violation(Violation(PROP, f"{rep_kind}.crossover", "child-not-parental-material", {"L": L},
                                                  {"unit": P.clean_unit(unit), "choices": list(ex.choices), "p1": p1, "p2": p2, "child": sc},
                                                  f"{rep_kind} crossover: child {sc} of {p1} x {p2}: {why}"))
        # mutation is also applied to offspring of crossover (genotypes no initialiser produces directly)
        extra = []
        seen_x = set()
        for a, b in list(itertools.product(genos[:5], repeat=2)):
            for choices in ((), (1,), (0, 1), (1, 0), (1, 1)):
                try:
                    kids = mk(ExhaustiveSource(choices, strict=False, **skw)).crossover(ExhaustiveSource(choices, strict=False, **skw), a, b)
                except Exception:  # noqa
                    continue
                for kch in kids:
                    key = genotype_snapshot(kch)
                    if key not in seen and key not in seen_x:
                        seen_x.add(key)
                        extra.append(kch)
        from geneticengine.algorithms.gp.operators.mutation import GenericMutationStep
        from geneticengine.evaluation.sequential import SequentialEvaluator
        from geneticengine.problems import SingleObjectiveProblem
        from geneticengine.solutions.individual import Individual

        step_problem = SingleObjectiveProblem(lambda p: 0.0, minimize=False)
        parents = genos + extra[:12]
        # every parent is mutated directly (representation.mutate) and through the mutation step a search applies
        # (GenericMutationStep with probability 1 on a population of one): the offspring of either differs in one gene
        for via, a in [("direct", a) for a in parents] + [("step", a) for a in parents[:8]]:
            sa = shape(a)

            def mut(src, a=a, via=via):
                rep = mk(src)
                if via == "direct":
                    return rep.mutate(src, a)
                out = list(GenericMutationStep(1).apply(step_problem, SequentialEvaluator(), rep, src, iter([Individual(a, rep)]), 1, 0))
                assert len(out) == 1, f"mutation step returned {len(out)} individuals for one"
                return out[0].genotype

            for ex in explore(mut, max_execs=600 if via == "direct" else 300, horizon=300, stats=ExploreStats(), source_kwargs=skw):
                r.executions += 1
                if via == "step":
                    r.count("mutations_through_the_step")
                if ex.exc is not None or ex.capped:
                    if ex.exc is not None and not is_library_error(ex.exc):
                        r.add_violation(Violation(PROP, f"{rep_kind}.mutate", "raised", {"exc": type(ex.exc).__name__, "L": L},
                                                  {"unit": P.clean_unit(unit), "choices": list(ex.choices), "p1": sa},
                                                  f"{rep_kind} mutate of {sa}: {exc_brief(ex.exc)}"))
                    continue
                r.count("mutations")
                sc = shape(ex.result)
                if isinstance(ex.result.dna, dict):
                    stale = [k for k in ex.result.dna if not any(k is k0 or k == k0 for k0 in a.dna)]
                    if stale:
                        r.add_violation(Violation(PROP, f"{rep_kind}.mutate", "gene-locus-changed", {"L": L},
                                                  {"unit": P.clean_unit(unit), "choices": list(ex.choices), "p1": sa, "child": sc},
                                                  f"{rep_kind} mutate: the child's genes for {stale[:2]} sit under a key that is "
                                                  f"not (equal to) any key of the parent"))
                if isinstance(sc, list):
                    same_shape = len(sc) == len(sa)
                    ham = sum(1 for x, y in zip(sc, sa) if x != y) if same_shape else 99
                else:
                    same_shape = set(sc) == set(sa) and all(len(sc[k]) == len(sa[k]) for k in sc)
                    ham = sum(1 for k in sc for x, y in zip(sc[k], sa[k]) if x != y) if same_shape else 99
                if ham == 1:
                    r.nontrivial += 1
                if not same_shape or ham > 1:
                    r.add_violation(Violation(PROP, f"{rep_kind}.mutate", "mutation-not-local", {"L": L, "same_shape": same_shape},
                                              {"unit": P.clean_unit(unit), "choices": list(ex.choices), "p1": sa, "child": sc},
                                              f"{rep_kind} mutate{' (through GenericMutationStep)' if via == 'step' else ''}: {sa} -> {sc}"))
        r.states = len(genos)
        if genos and len(r.samples) < 1:
            r.samples.append({"rep": rep_kind, "L": L, "parents": [shape(x) for x in genos[:3]]})
    finally:
        ctx.bundle.cleanup()
    return r


def run_unit(unit) -> UnitResult:
    return run_tree(unit) if unit["kind"] == "tree" else run_linear(unit)


def finalize(cr):
    cr.require("tree_crossovers")
    cr.require("linear_crossovers")
    cr.require("mutations")
    cr.require("pairs_with_different_parents")
