"""C07 -- genotype-to-phenotype mapping is a pure function of the genotype."""
from __future__ import annotations

import itertools

from geneticengine.random.sources import NativeRandomSource

from mc import grammars as G
from mc import refsem as R
from mc.explorer import CountingSource, ExhaustiveSource, ExploreStats, HorizonExceeded, explore, gene_domain, MAXSIZE
from mc.harness import UnitResult, Violation
from mc.snapshot import genotype_snapshot
from checks import producers as P
from checks.common import exc_brief, is_library_error, make_rep

PROP = "C07"
TECHNIQUE = (
    "all genotypes over a gene alphabet (GE, SGE, stack) / all genotypes reachable by exhaustive creation (dSGE) are "
    "mapped under every answer of an exhaustive scripted shared source (E1) and under all interleavings of map / draw "
    "histories up to length 4 with seeded native sources; monitor = number of draws served by the shared source; stack genomes that complete a program are found by explicit-state search of the stack machine (BFS over draw prefixes of the real mapping, states = contents of its type stacks); crossover children / mutants of dSGE genotypes (incomplete gene lists) must be complete after their first mapping; every genotype is also mapped through a grammar object extracted afresh for it"
)
RULE = (
    "unit = grammar x representation x decider; for each genotype: (i) the set of programs over ALL answers of the shared "
    "source has exactly one element and no choice point is consumed (dSGE: exactly the genes appended), (ii) histories over "
    "{map, draw, map on another seed} give structurally identical programs, (iii) the genotype is unchanged (dSGE: suffix "
    "growth only); non-trivial = genotype whose program has a nested node or a refined field"
)


def units(tier, seed):
    fam = G.general_family(tier)
    sel = [s for s in fam if s["name"].split(":")[0] in ("S1", "S2", "S3", "S5", "S6", "S7", "S8", "S9", "S10", "S12", "S14", "S17", "S22", "S27", "S28")]
    sel += [s for s in fam if s["name"].startswith(("F1:", "G1:"))]
    if tier != "quick":
        sel = fam
    us = []
    for spec in sel:
        for rep in ("ge", "sge", "dsge", "stack"):
            decs = ("maxdepth", "pigrow") if rep in ("ge", "sge") else ("maxdepth",)
            if rep in ("ge", "sge") and spec["name"].split(":")[0] in ("S1", "S2", "S3", "S5", "S10") and not spec.get("stringify"):
                decs = decs + ("pt",)  # a decider that derives directly from BaseDecider
            for dec in decs:
                # stateful deciders (PI-grow) need some depth before their state can leak between mappings
                offs = (1, 2) if (dec == "pigrow" and (tier != "quick" or spec["name"].startswith("S"))) else (1,)
                for off in offs:
                    us.append({"spec": spec, "rep": rep, "decider": dec, "L": 3, "depth_off": off, "seed": seed,
                               "max_execs": 40 if tier == "quick" else 300})
    return us


def genotypes(ctx, unit):
    rep_kind = unit["rep"]
    L = unit["L"]
    d = P.unit_depth(ctx)
    if rep_kind == "dsge":
        out = []
        seen = set()

        def create(src):
            rep = make_rep("dsge", ctx.g, src, d)
            gt = rep.create_genotype(src)
            rep.genotype_to_phenotype(gt)  # populate the gene lists
            return gt

        for ex in explore(create, max_execs=300, horizon=300, stats=ExploreStats(),
                          source_kwargs={"wide_domain": gene_domain(P.GENES_DSGE)}):
            if ex.exc is None and not ex.capped:
                k = genotype_snapshot(ex.result)
                if k not in seen:
                    seen.add(k)
                    out.append(ex.result)
        return out[:60]
    alphabet = P.stack_alphabet(ctx.g) if rep_kind == "stack" else P.GENES
    out = []
    for dna in P.gene_lists(L, alphabet):
        if rep_kind == "ge":
            from geneticengine.representations.grammatical_evolution.ge import Genotype

            out.append(Genotype(list(dna)))
        elif rep_kind == "stack":
            from geneticengine.representations.stackgggp import Genotype

            out.append(Genotype(list(dna)))
        else:
            from geneticengine.representations.grammatical_evolution.structured_ge import Genotype, INFRASTRUCTURE_KEY
            from mc.explorer import ScriptedSource

            probe = make_rep("sge", ctx.g, ScriptedSource([0]), 10**5, gene_length=1).create_genotype(ScriptedSource([0]))
            out.append(Genotype({k: (list(dna) if k == INFRASTRUCTURE_KEY else [1] * L) for k in probe.dna.keys()}))
    if rep_kind == "stack":
        # genomes found by explicit-state search of the stack machine itself: they complete a program (also after
        # failed draws), which enumerated short genomes rarely do
        from geneticengine.representations.stackgggp import Genotype

        guided = P.stack_guided_genomes(ctx.g)
        for genome, _ in guided:
            out.append(Genotype(list(genome)))
        genotypes.guided = len(guided)
    return out


def run_unit(unit) -> UnitResult:
    r = UnitResult()
    ctx = P.open_ctx(unit)
    try:
        if ctx.g is None:
            return r
        rep_kind = unit["rep"]
        d = P.unit_depth(ctx)
        L = unit["L"]
        site = f"{rep_kind}.genotype_to_phenotype"

        def mk(src):
            return make_rep(rep_kind, ctx.g, src, d, gene_length=L, decider=unit["decider"])

        from mc.explorer import HarnessError as _HE

        try:
            gts = genotypes(ctx, unit)
        except _HE as e:
            if "replay divergence" not in str(e):
                raise
            r.add_violation(Violation(PROP, site, "identical-mappings-diverge", {"rep": rep_kind, "decider": unit["decider"]}, {"unit": P.clean_unit(unit)},
                                      f"{ctx.spec['name']}: creating and mapping genotypes under identical random answers took different paths "
                                      f"({e}): the mapping depends on state outside the genotype"))
            return r

        def map_once(gt0, grammar=None):
            g1 = gt0
            if rep_kind == "dsge":
                from geneticengine.representations.grammatical_evolution.dynamic_structured_ge import Genotype as _G

                g1 = _G(ExhaustiveSource((), wide_domain=gene_domain(P.GENES_DSGE)), {k: list(v) for k, v in gt0.dna.items()})
            try:
                if grammar is not None:
                    rep2 = make_rep(rep_kind, grammar, ExhaustiveSource(()), d, gene_length=L, decider=unit["decider"])
                    return R.term(rep2.genotype_to_phenotype(g1))
                return R.term(mk(ExhaustiveSource(())).genotype_to_phenotype(g1))
            except HorizonExceeded:
                return ("<horizon>",)
            except Exception as e:  # noqa
                return ("exc", type(e).__name__)

        if rep_kind == "stack":
            r.count("stack_genomes_from_machine_search", getattr(genotypes, "guided", 0))
        first_pass = [map_once(gt) for gt in gts]
        for gt in gts:
            snap0 = genotype_snapshot(gt)
            w = {"unit": P.clean_unit(unit), "genotype": repr(snap0)[:300]}
            # (A) all answers of an exhaustive shared source
            outcomes = {}
            drew = 0
            st = ExploreStats()

            appended = {}

            def run(src, gt=gt):
                if rep_kind == "dsge":
                    # the search's shared source is what dSGE genotypes carry; work on a copy per execution
                    import copy
                    from geneticengine.representations.grammatical_evolution.dynamic_structured_ge import Genotype

                    g2 = Genotype(src, {k: list(v) for k, v in gt.dna.items()})
                    n0 = sum(len(v) for v in g2.dna.values())
                    try:
                        return mk(src).genotype_to_phenotype(g2)
                    finally:
                        appended["n"] = sum(len(v) for v in g2.dna.values()) - n0
                return mk(src).genotype_to_phenotype(gt)

            from mc.explorer import HarnessError

            def guarded():
                try:
                    yield from explore(run, max_execs=unit["max_execs"], horizon=300, stats=st,
                                       source_kwargs={"wide_domain": gene_domain(P.GENES_DSGE)} if rep_kind == "dsge" else {})
                except HarnessError as e:
                    if "replay divergence" not in str(e):
                        raise
                    r.add_violation(Violation(PROP, site, "identical-mappings-diverge", {"rep": rep_kind, "decider": unit["decider"]}, w,
                                              f"{ctx.spec['name']}: mapping the same genotype under the same answers of the shared source took a "
                                              f"different path the second time ({e}): the mapping depends on state outside the genotype"))

            for ex in guarded():
                r.executions += 1
                if ex.capped:
                    continue
                key = ("exc", type(ex.exc).__name__) if ex.exc is not None else R.term(ex.result)
                outcomes.setdefault(key, ex.choices)
                drew = max(drew, len(ex.choices) - appended.get("n", 0))
            r.count("genotypes_mapped")
            snap1 = genotype_snapshot(gt)
            grew = snap1 != snap0
            if grew and not (rep_kind == "dsge" and _suffix(snap0, snap1)):
                r.add_violation(Violation(PROP, site, "genotype-changed", {"rep": rep_kind}, w,
                                          f"{ctx.spec['name']}: mapping changed the genotype {snap0!r:.120} -> {snap1!r:.120}"))
            progs = [k for k in outcomes if k[0] != "exc"]
            if progs and any(isinstance(x, tuple) and x[0] not in ("int", "bool", "float", "str") for x in progs[0][1:]):
                r.nontrivial += 1
            if len(outcomes) > 1:
                ks = list(outcomes)
                r.add_violation(Violation(PROP, site, "program-depends-on-shared-source", {"rep": rep_kind, "decider": unit["decider"]},
                                          dict(w, choices_a=list(outcomes[ks[0]]), choices_b=list(outcomes[ks[1]])),
                                          f"{ctx.spec['name']}: the same genotype maps to {_show(ks[0])[:100]} or {_show(ks[1])[:100]} "
                                          f"depending on the shared random source"))
            elif drew > 0:
                r.add_violation(Violation(PROP, site, "shared-source-advanced", {"rep": rep_kind, "decider": unit["decider"]}, w,
                                          f"{ctx.spec['name']}: mapping consumed {drew} draw(s) of the shared random source"))
            r.states += len(outcomes)
            # (B) histories with native seeded sources: map, map, draw, map, other seed map
            try:
                terms = []
                shared = CountingSource(NativeRandomSource(unit["seed"]))
                rep = mk(shared)
                if rep_kind == "dsge":
                    import copy
                    from geneticengine.representations.grammatical_evolution.dynamic_structured_ge import Genotype

                    gt = Genotype(shared, {k: list(v) for k, v in gt.dna.items()})
                state0 = shared.inner.random.getstate()
                terms.append(R.term(rep.genotype_to_phenotype(gt)))
                served = shared.draws
                state1 = shared.inner.random.getstate()
                terms.append(R.term(rep.genotype_to_phenotype(gt)))
                for _ in range(3):
                    shared.randint(0, 9)
                if rep_kind in ("ge", "sge") and getattr(rep, "decider", None) is not None:
                    # the representation's decider object is also used directly in between (a tree representation
                    # sharing it builds a tree): whatever state that leaves on the object must not reach the next mapping
                    from geneticengine.representations.tree.treebased import TreeBasedRepresentation as _T

                    try:
                        _T(ctx.g, rep.decider).create_genotype(shared)
                    except Exception:  # noqa
                        pass
                terms.append(R.term(rep.genotype_to_phenotype(gt)))
                shared2 = NativeRandomSource(unit["seed"] + 1)
                if rep_kind == "dsge":
                    gt.random = shared2
                terms.append(R.term(mk(shared2).genotype_to_phenotype(gt)))
                r.executions += 4
                r.count("histories")
                if len(set(terms)) > 1:
                    r.add_violation(Violation(PROP, site, "remapping-differs", {"rep": rep_kind, "decider": unit["decider"]}, w,
                                              f"{ctx.spec['name']}: mapping the same genotype again gave {[R.show(t)[:60] for t in terms]}"))
                elif served > 0 or state0 != state1:
                    r.add_violation(Violation(PROP, site, "shared-source-advanced", {"rep": rep_kind, "decider": unit["decider"]}, w,
                                              f"{ctx.spec['name']}: native shared source served {served} draws during mapping"))
            except HorizonExceeded:
                r.capped += 1
            except Exception as e:  # noqa  -- failing mappings are compared in (A)
                r.count("history_mapping_raised")
        # (C) every genotype is mapped once more at the very end of the history: same program as at the very start
        for gt, t0 in zip(gts, first_pass):
            t1 = map_once(gt)
            r.executions += 2
            if t1 != t0:
                r.add_violation(Violation(PROP, site, "remapping-differs-later", {"rep": rep_kind, "decider": unit["decider"]},
                                          {"unit": P.clean_unit(unit), "genotype": repr(genotype_snapshot(gt))[:300]},
                                          f"{ctx.spec['name']}: a genotype mapped to {_show(t0)[:80]} at the start of the history and to "
                                          f"{_show(t1)[:80]} after other genotypes had been mapped"))
                break
        # (C') ... and through a grammar object extracted afresh from the same classes (no state that an earlier mapping
        # may have left on the grammar object, or in a cache keyed by it, can be involved)
        if not unit.get("spec", {}).get("named"):
            for gt, t0 in zip(gts, first_pass):
                try:
                    g_fresh = ctx.bundle.extract()  # one pristine grammar object per genotype
                except Exception:  # noqa
                    break
                t2 = map_once(gt, g_fresh)
                r.executions += 1
                r.count("mapped_through_a_fresh_grammar_object")
                if t2 != t0:
                    r.add_violation(Violation(PROP, site, "mapping-depends-on-grammar-object-history", {"rep": rep_kind, "decider": unit["decider"]},
                                              {"unit": P.clean_unit(unit), "genotype": repr(genotype_snapshot(gt))[:300]},
                                              f"{ctx.spec['name']}: a genotype mapped to {_show(t0)[:80]} through the grammar object used all along and to "
                                              f"{_show(t2)[:80]} through a freshly extracted grammar of the same classes"))
                    break
        # (C'') weighted grammars: after a (successful) weight update on the grammar object, the representation that was
        # built before it and one built afterwards over the same grammar map every genotype to the same program
        if any(p[2] is not None for p in ctx.spec.get("prods", [])) and rep_kind != "dsge":
            rep_old = mk(ExhaustiveSource(()))
            try:
                ctx.g.update_weights(0.7, {n: (1.0 if k % 2 else 0.2) for k, n in enumerate(ctx.g.all_nodes)})
                updated = True
            except Exception:  # noqa
                updated = False
            if updated:
                for gt in gts:
                    def m(rep_x, gt=gt):
                        try:
                            return R.term(rep_x.genotype_to_phenotype(gt))
                        except HorizonExceeded:
                            return ("<horizon>",)
                        except Exception as e:  # noqa
                            return ("exc", type(e).__name__)

                    t_old, t_new = m(rep_old), m(mk(ExhaustiveSource(())))
                    r.executions += 2
                    r.count("mapped_after_a_weight_update")
                    if t_old != t_new:
                        r.add_violation(Violation(PROP, site, "mapping-depends-on-when-the-representation-was-built", {"rep": rep_kind, "decider": unit["decider"]},
                                                  {"unit": P.clean_unit(unit), "genotype": repr(genotype_snapshot(gt))[:300]},
                                                  f"{ctx.spec['name']}: after grammar.update_weights, the representation built before it maps a genotype to "
                                                  f"{_show(t_old)[:80]}, one built afterwards over the same grammar to {_show(t_new)[:80]}"))
                        break
        # (F) one long-lived representation object: a genotype object is mapped and dies, another genotype object (other
        # genes) is created at the very same address and mapped by the same representation: it gets the program of its own
        # genes (the allocator is asked until the address is reused, see C20)
        if rep_kind in ("ge", "stack", "sge") and len(gts) >= 2:
            def clone(g0):
                if rep_kind == "sge":
                    return type(g0)({k: list(v) for k, v in g0.dna.items()})
                return type(g0)(list(g0.dna))

            rep_long = mk(ExhaustiveSource(()))
            usable = [(g0, t0) for g0, t0 in zip(gts, first_pass) if t0 and t0[0] not in ("exc", "<horizon>")]
            others = [(g0, t0) for g0, t0 in zip(gts, first_pass)]
            for (ga, ta), (gb, tb) in list(zip(usable[:12], reversed(others[:40])))[:12]:
                if ta == tb:
                    continue
                a = clone(ga)
                try:
                    rep_long.genotype_to_phenotype(a)
                except BaseException:  # noqa
                    continue
                dead = id(a)
                del a
                spare, b2 = [], clone(gb)
                while id(b2) != dead and len(spare) < 300:
                    spare.append(b2)
                    b2 = clone(gb)
                if id(b2) != dead:
                    continue
                del spare
                r.count("genotypes_mapped_at_the_address_of_a_dead_one")
                try:
                    t_b2 = R.term(rep_long.genotype_to_phenotype(b2))
                except HorizonExceeded:
                    t_b2 = ("<horizon>",)
                except Exception as e:  # noqa
                    t_b2 = ("exc", type(e).__name__)
                r.executions += 2
                if t_b2 != tb:
                    r.add_violation(Violation(PROP, site, "mapping-depends-on-earlier-genotype-objects", {"rep": rep_kind, "decider": unit["decider"]},
                                              {"unit": P.clean_unit(unit), "genotype": repr(genotype_snapshot(gb))[:300]},
                                              f"{ctx.spec['name']}: a representation that had mapped (and outlived) another genotype object maps this genotype "
                                              f"to {_show(t_b2)[:80]}, its genes encode {_show(tb)[:80]}"))
                    break
        # (D) dynamic SGE only: genotypes that are NOT fully populated (crossover children hold empty or short gene lists for
        # symbols one parent never read; mutants differ in one gene): the first mapping may extend them from the shared
        # source, after that the genotype is complete -- every later mapping gives the same program and draws nothing
        if rep_kind == "dsge" and len(gts) >= 2:
            from geneticengine.representations.grammatical_evolution.dynamic_structured_ge import Genotype as DG

            def copy_gt(g0, src):
                return DG(src, {k: list(v) for k, v in g0.dna.items()})

            kids = []
            seen_k = set()
            pairs = [(a, b) for a in gts[:6] for b in gts[:6] if a is not b]

            def variation(src):
                rep = mk(src)
                pa, pb = pairs[src.randint(0, len(pairs) - 1)]
                if src.randint(0, 1) == 0:
                    c1, c2 = rep.crossover(src, copy_gt(pa, src), copy_gt(pb, src))
                    return [c1, c2]
                return [rep.mutate(src, copy_gt(pa, src))]

            for ex in explore(variation, max_dev=2, max_execs=150, horizon=300, stats=ExploreStats(),
                              source_kwargs={"wide_domain": gene_domain(P.GENES_DSGE)}):
                if ex.exc is not None or ex.capped:
                    continue
                for c in ex.result:
                    k = genotype_snapshot(c)
                    if k not in seen_k and len(kids) < 40:
                        seen_k.add(k)
                        kids.append(c)
            for kid in kids:
                w = {"unit": P.clean_unit(unit), "genotype": repr(genotype_snapshot(kid))[:300], "incomplete": True}
                try:
                    shared = CountingSource(NativeRandomSource(unit["seed"]))
                    g3 = copy_gt(kid, shared)
                    rep = mk(shared)
                    t1 = R.term(rep.genotype_to_phenotype(g3))
                    snap1 = genotype_snapshot(g3)
                    d1 = shared.draws
                    t2 = R.term(rep.genotype_to_phenotype(g3))
                    d2 = shared.draws - d1
                    g3.random = NativeRandomSource(unit["seed"] + 7)
                    t3 = R.term(mk(g3.random).genotype_to_phenotype(g3))
                    snap3 = genotype_snapshot(g3)
                    r.executions += 3
                    r.count("incomplete_genotypes_mapped")
                    if d1 > 0:
                        r.count("incomplete_genotypes_extended_on_demand")
                        r.nontrivial += 1
                    if len({t1, t2, t3}) > 1:
                        r.add_violation(Violation(PROP, site, "remapping-differs", {"rep": rep_kind, "decider": unit["decider"], "incomplete": True}, w,
                                                  f"{ctx.spec['name']}: a crossover child / mutant mapped to {[R.show(t)[:60] for t in (t1, t2, t3)]} in three "
                                                  f"consecutive mappings"))
                    elif d2 > 0 or snap3 != snap1:
                        r.add_violation(Violation(PROP, site, "shared-source-advanced", {"rep": rep_kind, "decider": unit["decider"], "incomplete": True}, w,
                                                  f"{ctx.spec['name']}: after the first mapping had completed the genotype, mapping it again served {d2} draw(s) "
                                                  f"/ changed the genotype"))
                except HorizonExceeded:
                    r.capped += 1
                except Exception as e:  # noqa
                    if not is_library_error(e):
                        r.add_violation(Violation(PROP, site, "foreign-exception", {"rep": rep_kind, "exc": type(e).__name__, "incomplete": True}, w,
                                                  f"{ctx.spec['name']}: {exc_brief(e)}"))
        if len(r.samples) < 1:
            r.samples.append({"grammar": ctx.spec["name"], "rep": rep_kind, "decider": unit["decider"], "genotypes": r.counters.get("genotypes_mapped", 0)})
    finally:
        ctx.bundle.cleanup()
    return r


def _show(k):
    return f"<{k[1]}>" if k[0] == "exc" else R.show(k)


def _suffix(a, b) -> bool:
    try:
        da, db = dict(a[1]), dict(b[1])
        return all(k in db and tuple(db[k][: len(v)]) == tuple(v) for k, v in da.items())
    except Exception:
        return False


def finalize(cr):
    cr.require("genotypes_mapped")
    cr.require("histories")
