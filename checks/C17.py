"""C17 -- selection operators are sound (tournament and lexicase)."""
from __future__ import annotations

import itertools

import numpy as np

from geneticengine.algorithms.gp.operators.selection import LexicaseSelection, TournamentSelection
from geneticengine.evaluation.sequential import SequentialEvaluator
from geneticengine.problems import MultiObjectiveProblem, SingleObjectiveProblem
from geneticengine.solutions.individual import Individual

from mc.explorer import ExhaustiveSource, ExploreStats, explore
from mc.harness import UnitResult, Violation
from mc.stubrep import StubRepresentation
from checks.common import exc_brief

PROP = "C17"
TECHNIQUE = (
    "exhaustive enumeration: populations up to size 4, fitness vectors over {0,1,2}^c, every per-case direction "
    "vector, tournament sizes 1-6, with/without replacement, all target sizes, epsilon on/off, and ALL outcomes of the "
    "random draws (E1, no deviation bound; the scripted source logs the element each choice returned, which identifies "
    "the participants of every tournament); lexicase winners are checked against an independent reference filter over "
    "all case permutations"
)
RULE = (
    "case = (population, fitness, operator parameters, target size, complete sequence of random answers); non-trivial = "
    "tournament with a tie or with repeated participants / lexicase pass with >= 2 winners"
)


def units(tier, seed):
    us = []
    for n in (1, 2, 3) if tier == "quick" else (1, 2, 3, 4):
        for ts in (1, 2, 3) if tier == "quick" else (1, 2, 3, 6):
            for repl in (False, True):
                for minimize in (False, True):
                    us.append({"kind": "tournament", "n": n, "ts": ts, "repl": repl, "minimize": minimize,
                               "max_execs": 3000 if tier == "quick" else 40000})
    for ts in (2, 3):
        for repl in (False, True):
            for minimize in (False, True):
                us.append({"kind": "tournament", "n": 3, "ts": ts, "repl": repl, "minimize": minimize, "reused": True,
                           "max_execs": 3000 if tier == "quick" else 40000})
    for n in (1, 2, 3):
        for c in (1, 2) if tier == "quick" else (1, 2, 3):
            for eps in (False, True):
                us.append({"kind": "lexicase", "n": n, "c": c, "epsilon": eps, "max_execs": 3000 if tier == "quick" else 40000})
    return us


def run_tournament(unit) -> UnitResult:
    r = UnitResult()
    n, ts, repl, minimize = unit["n"], unit["ts"], unit["repl"], unit["minimize"]
    rep = StubRepresentation(2)
    keep_alive: list = []
    for fits in itertools.product([0, 1, 2], repeat=n):
        if list(fits) != sorted(fits):
            continue  # selection draws by index: populations are enumerated up to reordering of values... no: keep order-free only for size
        for target in range(1, n + 3):
            for form in ("list", "iterator"):
                problem = SingleObjectiveProblem(lambda p: float(p.v), minimize=minimize)
                inds = [Individual(rep._new(f), rep) for f in fits]
                if (target + len(form)) % 2 == 0:
                    # the individuals already carry a fitness for ANOTHER problem with the opposite ranking
                    other = SingleObjectiveProblem(lambda p: float(p.v), minimize=not minimize)
                    SequentialEvaluator().evaluate(other, inds)
                    keep_alive.append(other)

                def run(src, inds=inds, form=form, target=target, problem=problem):
                    pop = list(inds) if form == "list" else iter(list(inds))
                    step = TournamentSelection(ts, with_replacement=repl)
                    if unit.get("reused"):
                        # the step object already served a selection for another problem (the opposite ranking)
                        before = SingleObjectiveProblem(lambda p: float(p.v), minimize=not minimize)
                        keep_alive.append(before)
                        list(step.apply(before, SequentialEvaluator(), rep, ExhaustiveSource((), strict=False), list(inds), target, 1))
                        del src.log[:]
                    return list(step.apply(problem, SequentialEvaluator(), rep, src, pop, target, 1)), list(src.log)

                st = ExploreStats()
                for ex in explore(run, max_execs=unit["max_execs"], horizon=400, stats=st):
                    r.executions += 1
                    w = {"unit": unit, "fitness": list(fits), "target": target, "form": form, "choices": list(ex.choices)}
                    if ex.exc is not None:
                        r.add_violation(Violation(PROP, "TournamentSelection.apply", "raised", {"exc": type(ex.exc).__name__, "form": form}, w,
                                                  f"tournament size {ts} repl={repl} on {fits} target {target} ({form}): {exc_brief(ex.exc)}"))
                        continue
                    winners, log = ex.result
                    picks = [x for k, x in log if k == "choice"]
                    if len(winners) != target:
                        r.add_violation(Violation(PROP, "TournamentSelection.apply", "wrong-count", {"form": form}, w,
                                                  f"tournament target {target} on {fits}: {len(winners)} winners"))
                        continue
                    # participants are observable when every tournament draws exactly `ts` members through choice();
                    # an implementation drawing them another way is only held to the membership clause
                    observable = len(picks) == target * ts and all(any(x is y for y in inds) for x in picks)
                    if observable:
                        r.count("tournaments_with_observable_participants", target)
                    for i, wnr in enumerate(winners):
                        if all(wnr is not x for x in inds):
                            r.add_violation(Violation(PROP, "TournamentSelection.apply", "winner-not-in-population", {}, w, f"winner {i} is not a member of the given population"))
                            continue
                        if not observable:
                            continue
                        part = picks[i * ts: (i + 1) * ts]
                        if len(part) != ts or all(wnr is not x for x in part):
                            r.add_violation(Violation(PROP, "TournamentSelection.apply", "winner-not-a-participant", {}, w,
                                                      f"tournament {i}: winner v={wnr.genotype.v} is not among the drawn participants {[getattr(getattr(x, 'genotype', None), 'v', x) for x in part]}"))
                            continue
                        pv = [x.genotype.v for x in part]
                        if len(set(pv)) < len(pv):
                            r.nontrivial += 1
                        worse = [v for v in pv if (v < wnr.genotype.v if minimize else v > wnr.genotype.v)]
                        if worse:
                            r.add_violation(Violation(PROP, "TournamentSelection.apply", "winner-worse-than-participant", {"minimize": minimize}, w,
                                                      f"tournament {i} minimize={minimize}: winner fitness {wnr.genotype.v}, participants {pv}"))
                r.truncated = r.truncated or st.truncated
                r.states += st.executions
    r.samples.append({"tournament": {"n": n, "size": ts, "replacement": repl, "minimize": minimize}})
    return r


def ref_lexicase_survivors(cands, fits, mins, order, epsilon):
    """Reference filter: candidates (indices) surviving the cases in `order`."""
    cur = list(cands)
    for c in order:
        if len(cur) <= 1:
            break
        vals = [fits[i][c] for i in cur]
        best = min(vals) if mins[c] else max(vals)
        if epsilon:
            arr = np.array(vals, dtype=float)
            mad = float(np.median(np.abs(arr - np.median(arr))))
            thr = best + mad if mins[c] else best - mad
        else:
            thr = best
        cur = [i for i in cur if (fits[i][c] <= thr if mins[c] else fits[i][c] >= thr)]
    return cur


def run_lexicase(unit) -> UnitResult:
    r = UnitResult()
    n, c, eps = unit["n"], unit["c"], unit["epsilon"]
    rep = StubRepresentation(2)
    vecs = list(itertools.product([0, 1, 2], repeat=c))
    for fits in itertools.product(vecs, repeat=n):
        for mins in itertools.product([False, True], repeat=c):
            for target in range(1, n + 2):
                table = {i: list(f) for i, f in enumerate(fits)}

                def ff(p, table=table):
                    return [float(x) for x in table[p.v]]

                problem = MultiObjectiveProblem(list(mins), ff)
                inds = []
                for i in range(n):
                    ind = Individual(rep._new(i), rep)
                    ind.genotype.v = i
                    inds.append(ind)

                def run(src, inds=inds, problem=problem, target=target):
                    return list(LexicaseSelection(epsilon=eps).apply(problem, SequentialEvaluator(), rep, src, list(inds), target, 1))

                st = ExploreStats()
                for ex in explore(run, max_execs=unit["max_execs"], horizon=400, stats=st):
                    r.executions += 1
                    w = {"unit": unit, "fitness": [list(f) for f in fits], "minimize": list(mins), "target": target, "choices": list(ex.choices)}
                    if ex.exc is not None and target > n:
                        # more winners requested than there are individuals: refusing is the only way not to hand out
                        # more copies than the population contains
                        r.count("oversubscribed_lexicase_refused")
                        continue
                    if ex.exc is not None:
                        r.add_violation(Violation(PROP, "LexicaseSelection.apply", "raised", {"exc": type(ex.exc).__name__}, w,
                                                  f"lexicase eps={eps} on {fits} mins {mins} target {target}: {exc_brief(ex.exc)}"))
                        continue
                    winners = ex.result
                    if len(winners) != target and target <= n:
                        r.add_violation(Violation(PROP, "LexicaseSelection.apply", "wrong-count", {}, w, f"lexicase target {target}: {len(winners)} winners"))
                        continue
                    if target >= 2:
                        r.nontrivial += 1
                    avail = list(range(n))
                    for k, wnr in enumerate(winners):
                        idx = next((i for i in avail if inds[i] is wnr), None)
                        if idx is None:
                            r.add_violation(Violation(PROP, "LexicaseSelection.apply", "winner-not-available", {"nth": min(k, 1)}, w,
                                                      f"lexicase winner {k} is not an available member of the population (copies exceeded?)"))
                            break
                        ok = any(idx in ref_lexicase_survivors(avail, fits, mins, order, eps) for order in itertools.permutations(range(c)))
                        if not ok:
                            r.add_violation(Violation(PROP, "LexicaseSelection.apply", "winner-does-not-survive-filter", {"nth": min(k, 1), "epsilon": eps}, w,
                                                      f"lexicase eps={eps} fitness {fits} minimise {mins}: winner {k} = individual {idx} {fits[idx]} survives the "
                                                      f"filter under no case order among the available {[(i, fits[i]) for i in avail]}"))
                        avail.remove(idx)
                r.truncated = r.truncated or st.truncated
                r.states += st.executions
    r.samples.append({"lexicase": {"n": n, "cases": c, "epsilon": eps}})
    return r


def run_unit(unit) -> UnitResult:
    return run_tournament(unit) if unit["kind"] == "tournament" else run_lexicase(unit)


def finalize(cr):
    if not cr.total.counters.get("tournaments_with_observable_participants"):
        # the implementation does not draw participants through choice(): only the membership clause was decided
        cr.assumptions.append("tournament participants were not observable in this run: only membership of winners was checked")
        cr.exhaustive = False
    cr.assumptions += ["populations up to size 3 (quick) / 4 (thorough); tournament populations are enumerated as sorted fitness vectors "
                       "(the operator draws by position, the oracle is position independent)"]
