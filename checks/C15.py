"""C15 -- population size is invariant across generations and step compositions."""
from __future__ import annotations

import itertools

from geneticengine.algorithms.gp.gp import GeneticProgramming, default_generic_programming_step
from geneticengine.algorithms.gp.operators.combinators import ExclusiveParallelStep, IdentityStep, ParallelStep, SequenceStep
from geneticengine.algorithms.gp.operators.crossover import GenericCrossoverStep
from geneticengine.algorithms.gp.operators.elitism import ElitismStep
from geneticengine.algorithms.gp.operators.evaluation import EvaluateStep
from geneticengine.algorithms.gp.operators.initializers import HalfAndHalfInitializer, StandardInitializer
from geneticengine.algorithms.gp.operators.mutation import GenericMutationStep
from geneticengine.algorithms.gp.operators.novelty import NoveltyStep
from geneticengine.algorithms.gp.operators.selection import TournamentSelection
from geneticengine.algorithms.gp.population import Population
from geneticengine.evaluation.budget import EvaluationBudget
from geneticengine.evaluation.recorder import SearchRecorder
from geneticengine.evaluation.sequential import SequentialEvaluator
from geneticengine.evaluation.tracker import SingleObjectiveProgressTracker
from geneticengine.problems import SingleObjectiveProblem
from geneticengine.representations.common import GenericPopulationInitializer
from geneticengine.representations.tree.operators import (
    FullInitializer, GrowInitializer, InjectInitialPopulationWrapper, PositionIndependentGrowInitializer,
    RampedHalfAndHalfInitializer,
)
from geneticengine.solutions.individual import Individual

from mc import grammars as G
from mc.explorer import ExhaustiveSource, ExploreStats, explore
from mc.harness import UnitResult, Violation
from mc.stubrep import StubRepresentation
from checks.common import exc_brief, is_library_error, make_rep

PROP = "C15"
TECHNIQUE = (
    "exhaustive enumeration of step terms (9 leaves, Sequence / Parallel / ExclusiveParallel to nesting depth 2-3) x "
    "weight vectors over {0,1,2,3}^k and 5/5/90 x population sizes 2-7 x requested sizes x iterable form of the input, "
    "applied with the real steps on a stub representation (random answers explored by E1 with a deviation bound); all "
    "initialisers; real GP runs observed per generation through a recorder; one combinator object whose weights change between generations (every ordered pair of 6 weight vectors x 4 ways of changing them), the library's weight-changing combinators on a population / one-shot iterator / after a selection step; initialisers on grammars of minimum depth 1-3"
)
RULE = (
    "case = (step term, weights, population size n, requested k <= n, iterable form); oracle len(list(step.apply(..))) == k; "
    "non-trivial = term with a combinator whose rounded shares do not add up to k, or a one-shot iterator input"
)

LEAVES = ["E", "N", "T", "Tr", "M", "Mh", "X", "I", "Ev"]


def leaf(name):
    return {
        "E": lambda: ElitismStep(), "N": lambda: NoveltyStep(), "T": lambda: TournamentSelection(2),
        "Tr": lambda: TournamentSelection(2, with_replacement=True), "M": lambda: GenericMutationStep(1),
        "Mh": lambda: GenericMutationStep(0.5), "X": lambda: GenericCrossoverStep(1), "I": lambda: IdentityStep(), "Ev": lambda: EvaluateStep(),
    }[name]()


def build(term):
    """term = leaf name | ["seq", t1, t2..] | ["par", weights, t1, t2..] | ["xpar", weights, t1, ..]"""
    if isinstance(term, str):
        return leaf(term)
    k = term[0]
    if k == "seq":
        return SequenceStep(*[build(t) for t in term[1:]])
    subs = [build(t) for t in term[2:]]
    if k == "par":
        return ParallelStep(subs, list(term[1]))
    return ExclusiveParallelStep(subs, list(term[1]))


def weight_vectors(k):
    out = [list(v) for v in itertools.product([0, 1, 2, 3], repeat=k) if any(v)]
    if k == 3:
        out.append([5, 5, 90])
    return out


def terms(tier):
    out = [l for l in LEAVES]
    for a, b in itertools.product(LEAVES, repeat=2):
        out.append(["seq", a, b])
    pairs = list(itertools.product(["E", "N", "T", "M", "X", "I", "Ev"], repeat=2))
    for a, b in pairs:
        for w in weight_vectors(2):
            out.append(["par", w, a, b])
            out.append(["xpar", w, a, b])
    for w in weight_vectors(3):
        out.append(["par", w, "E", "N", ["seq", "T", "X", "M"]])
        out.append(["xpar", w, "M", "X", "I"])
        out.append(["seq", "T", ["par", w, "E", "N", "M"]])
        out.append(["seq", "Tr", ["xpar", w, "M", "X", "I"]])
    # fractional weights (floating-point shares that land just below an integer) on larger sizes are covered by
    # the 'fractional' unit kind below
    # nesting depth 3
    for w in ([1, 1], [1, 2], [0, 1], [3, 1]):
        for w2 in ([1, 1], [2, 1], [1, 0]):
            out.append(["par", w, ["seq", "T", ["xpar", w2, "M", "X"]], "E"])
            out.append(["seq", "T", ["par", w, ["par", w2, "E", "N"], ["seq", "X", "M"]]])
    return out


def units(tier, seed):
    us = []
    ts = terms(tier)
    chunk = 40
    for i in range(0, len(ts), chunk):
        us.append({"kind": "steps", "terms": ts[i: i + chunk], "sizes": [2, 3, 4, 5, 7] if tier == "quick" else [2, 3, 4, 5, 6, 7],
                   "max_dev": 0 if tier == "quick" else 1})
    fr = [[0.4, 0.3], [0.25, 0.4], [0.8, 0.6], [0.6, 0.3, 0.9], [0.1, 0.2], [0.7, 0.1, 0.2], [0.3, 0.3, 0.4], [0.05, 0.05, 0.9], [1.5, 2.5],
          [0.35, 0.65], [0.15, 0.3, 0.55]]
    for w in fr:
        us.append({"kind": "fractional", "weights": w, "sizes": list(range(2, 14)) + [37, 50]})
    for eps in (False, True):
        us.append({"kind": "lexicase", "epsilon": eps})
    # one combinator object whose weights change between generations (as the adaptive variants do)
    for head in ("par", "xpar"):
        for mode in ("reassign", "setitem", "ctor-list-edited", "augmented"):
            us.append({"kind": "reweighted", "head": head, "mode": mode})
    for lib in ("feedback", "randomize"):
        for form in ("population", "iterator", "after-selection"):
            us.append({"kind": "reweighted-lib", "lib": lib, "form": form, "max_dev": 2 if tier == "quick" else 3,
                       "max_execs": 400 if tier == "quick" else 5000})
    for gname in ("S1", "mindepth2", "mindepth3"):
        for init in ("grow", "pigrow", "ramped", "full", "inject-grow", "standard"):
            us.append({"kind": "init-deep", "init": init, "grammar": gname})
    for init in ("standard", "generic", "full", "grow", "pigrow", "ramped", "halfandhalf"):
        us.append({"kind": "init", "init": init})
    for n_inject in range(0, 6):
        us.append({"kind": "init", "init": "inject", "inject": n_inject})
    for step in ("default", "simplegp", "elitism-heavy", "selection-only", "mutation05", "weights-1-1-0", "seq-par"):
        for size in (2, 3, 4, 5, 7):
            us.append({"kind": "gp", "step": step, "size": size, "max_dev": 1 if tier == "quick" else 2, "max_execs": 150 if tier == "quick" else 3000})
    return us


def feat_of(term, form):
    def heads(t):
        if isinstance(t, str):
            return set()
        s = {t[0]}
        for x in (t[1:] if t[0] == "seq" else t[2:]):
            s |= heads(x)
        return s

    return {"combinators": sorted(heads(term)), "form": form}


def run_steps(unit) -> UnitResult:
    r = UnitResult()
    rep = StubRepresentation(2)
    problem = SingleObjectiveProblem(lambda p: [2.0, 0.0, 1.0][p.v % 3])
    for term in unit["terms"]:
        shared = {}
        for n in unit["sizes"]:
            for k in range(1, n + 1):
                for form in ("list", "population", "iterator", "list-reused-step"):
                    def run(src, term=term, n=n, k=k, form=form):
                        ev = SequentialEvaluator()
                        inds = [Individual(rep._new(i % 3), rep) for i in range(n)]
                        if form in ("list", "list-reused-step"):
                            pop = inds
                        elif form == "population":
                            pop = Population(iter(inds), SingleObjectiveProgressTracker(problem, ev))
                        else:
                            pop = iter(inds)
                        if form == "list-reused-step":
                            # one step object serves every (population, k) case of this term, as a step object
                            # serves every generation (and several runs) in practice
                            if "step" not in shared:
                                shared["step"] = build(term)
                            step = shared["step"]
                        else:
                            step = build(term)
                        return len(list(step.apply(problem, ev, rep, src, pop, k, 1)))

                    st = ExploreStats()
                    for ex in explore(run, max_dev=0 if form == "list-reused-step" else unit["max_dev"], max_execs=50, horizon=2000, stats=st):
                        r.executions += 1
                        w = {"unit": {"kind": "steps", "terms": [term], "sizes": [n], "max_dev": unit["max_dev"]}, "k": k, "form": form,
                             "choices": list(ex.choices)}
                        f = feat_of(term, form)
                        if not isinstance(term, str) or form == "iterator":
                            r.nontrivial += 1
                        if ex.exc is not None:
                            r.add_violation(Violation(PROP, "GeneticStep.apply", "raised", dict(f, exc=type(ex.exc).__name__), w,
                                                      f"step {term} on {n} individuals ({form}), k={k}: {exc_brief(ex.exc)}"))
                        elif ex.result != k:
                            r.add_violation(Violation(PROP, "GeneticStep.apply", "wrong-size", dict(f, sign="over" if ex.result > k else "under"), w,
                                                      f"step {term} on {n} individuals ({form}) asked for {k}, yielded {ex.result}"))
                    r.count("step_cases")
    r.states = len(unit["terms"])
    r.samples.append({"terms": unit["terms"][:2], "sizes": unit["sizes"]})
    return r


def run_fractional(unit) -> UnitResult:
    """Parallel / ExclusiveParallel with fractional float weights on a range of target sizes."""
    r = UnitResult()
    rep = StubRepresentation(2)
    problem = SingleObjectiveProblem(lambda p: [2.0, 0.0, 1.0][p.v % 3])
    w = unit["weights"]
    leaves = ["E", "N", "M", "I"][: len(w)] if len(w) <= 3 else ["E", "N", "M", "I"]
    for head in ("par", "xpar"):
        term = [head, w] + leaves[: len(w)]
        for n in unit["sizes"]:
            for k in sorted({n, max(1, n - 1)}):
                ev = SequentialEvaluator()
                inds = [Individual(rep._new(i % 3), rep) for i in range(n)]
                r.executions += 1
                r.nontrivial += 1
                r.count("step_cases")
                wit = {"unit": {"kind": "fractional", "weights": w, "sizes": [n]}, "k": k, "term": term}
                try:
                    got = len(list(build(term).apply(problem, ev, rep, ExhaustiveSource(()), inds, k, 1)))
                except Exception as e:  # noqa
                    r.add_violation(Violation(PROP, "GeneticStep.apply", "raised", {"combinators": [head], "form": "list", "exc": type(e).__name__}, wit,
                                              f"step {term} on {n} individuals, k={k}: {exc_brief(e)}"))
                    continue
                if got != k:
                    r.add_violation(Violation(PROP, "GeneticStep.apply", "wrong-size", {"combinators": [head], "form": "list", "sign": "over" if got > k else "under"}, wit,
                                              f"step {term} on {n} individuals asked for {k}, yielded {got}"))
    r.states = len(unit["sizes"])
    r.samples.append({"weights": w, "sizes": unit["sizes"][:4]})
    return r


REWEIGHTS = [[1, 1, 1], [1, 2, 3], [3, 0, 1], [5, 5, 90], [0, 0, 1], [2, 2, 0]]


def run_reweighted(unit) -> UnitResult:
    r = UnitResult()
    rep = StubRepresentation(2)
    problem = SingleObjectiveProblem(lambda p: [2.0, 0.0, 1.0][p.v % 3])
    head, mode = unit["head"], unit["mode"]
    leaves = ["E", "N", "M"] if head == "par" else ["M", "X", "I"]
    for w1, w2 in itertools.permutations(REWEIGHTS, 2):
        for n in (2, 3, 4, 5, 7, 10):
            given = list(w1)
            subs = [leaf(x) for x in leaves]
            step = ParallelStep(subs, given) if head == "par" else ExclusiveParallelStep(subs, given)
            sizes = []
            wit = {"unit": unit, "w1": w1, "w2": w2, "n": n}
            try:
                for gen in (1, 2, 3):
                    ev = SequentialEvaluator()
                    inds = [Individual(rep._new(i % 3), rep) for i in range(n)]
                    sizes.append(len(list(step.apply(problem, ev, rep, ExhaustiveSource(()), inds, n, gen))))
                    if gen == 1:
                        if mode == "reassign":
                            step.weights = list(w2)
                        elif mode == "setitem":
                            for i, x in enumerate(w2):
                                step.weights[i] = x
                        elif mode == "ctor-list-edited":
                            given[:] = w2
                            if step.weights is not given:
                                step.weights = list(w2)  # the step copied its argument: plain reassignment instead
                        else:
                            for i, x in enumerate(w2):
                                step.weights[i] += x - w1[i]
            except Exception as e:  # noqa
                r.add_violation(Violation(PROP, "GeneticStep.apply", "raised", {"combinators": [head], "form": "reweighted", "exc": type(e).__name__}, wit,
                                          f"{head} {leaves} weights {w1} then {w2} ({mode}) on {n}: {exc_brief(e)}"))
                continue
            r.executions += 3
            r.nontrivial += 1
            r.count("step_cases")
            if sizes != [n, n, n]:
                r.add_violation(Violation(PROP, "GeneticStep.apply", "wrong-size", {"combinators": [head], "form": "reweighted", "sign": "over" if max(sizes) > n else "under"}, wit,
                                          f"{head} {leaves} weights {w1}, then changed to {w2} ({mode}) on the same step object: generations of {n} yielded {sizes}"))
    r.states = len(REWEIGHTS) ** 2
    r.samples.append({"reweighted": head, "mode": mode})
    return r


def run_reweighted_lib(unit) -> UnitResult:
    """The library's own weight-changing combinators, three generations on one step object."""
    from geneticengine.algorithms.gp.adaptive import FeedbackParallelStep
    from geneticengine.algorithms.gp.parameterless import RandomizeParallelStep

    r = UnitResult()
    for n in (3, 4, 5, 9):
        def run(src, n=n):
            rep = StubRepresentation(2)
            # fitness grows with the serial number, so that later offspring beat the recorded best (feedback deltas > 0)
            problem = SingleObjectiveProblem(lambda p: float(p.v))
            ev = SequentialEvaluator()
            tracker = SingleObjectiveProgressTracker(problem, ev)
            subs = [ElitismStep(), NoveltyStep(), GenericMutationStep(1), SequenceStep(TournamentSelection(2), GenericCrossoverStep(1))]
            if unit["lib"] == "feedback":
                step = FeedbackParallelStep(tracker, subs, [1.0, 1.0, 1.0, 1.0])
            else:
                step = RandomizeParallelStep(subs, [1, 1, 1, 1])
            pop = Population(iter([Individual(rep._new(0), rep) for i in range(n)]), tracker)
            sizes = []
            top = SequenceStep(TournamentSelection(2, with_replacement=True), step) if unit.get("form") == "after-selection" else step
            for gen in (1, 2, 3):
                given = iter(pop.individuals) if unit.get("form") == "iterator" else pop
                pop = Population(top.apply(problem, ev, rep, src, given, n, gen), tracker, gen)
                sizes.append((len(pop.individuals), [round(float(x), 3) for x in step.weights]))
            return sizes

        st = ExploreStats()
        for ex in explore(run, max_dev=unit["max_dev"], max_execs=unit["max_execs"], horizon=5000, stats=st):
            r.executions += 1
            w = {"unit": unit, "n": n, "choices": list(ex.choices)}
            f = {"combinators": [unit["lib"]], "form": "reweighted-" + unit.get("form", "population")}
            if ex.exc is not None:
                r.add_violation(Violation(PROP, "GeneticStep.apply", "raised", dict(f, exc=type(ex.exc).__name__), w,
                                          f"{unit['lib']} parallel step on {n}: {exc_brief(ex.exc)}"))
                continue
            r.count("step_cases")
            if len({tuple(ws) for _, ws in ex.result}) > 1:
                r.nontrivial += 1
                r.count("runs_with_changed_weights")
            if [k for k, _ in ex.result] != [n, n, n]:
                r.add_violation(Violation(PROP, "GeneticStep.apply", "wrong-size", dict(f, sign="over" if max(k for k, _ in ex.result) > n else "under"), w,
                                          f"{unit['lib']} parallel step, population {n}: (size, weights after) per generation = {ex.result}"))
        r.capped += st.capped_paths
    r.states = 4
    r.samples.append({"reweighted_lib": unit["lib"]})
    return r


def run_init_deep(unit) -> UnitResult:
    """Initialisers on grammars whose minimum tree depth is above 1 (the first depths tried are infeasible)."""
    r = UnitResult()
    spec = deep_spec(unit["grammar"])
    b = G.build(spec)
    try:
        g = b.extract()
        problem = SingleObjectiveProblem(lambda p: 1.0)
        for k in (1, 2, 3, 5):
            def run(src, k=k):
                rep = make_rep("tree", g, src, 4)
                name = unit["init"]
                init = {"grow": GrowInitializer, "pigrow": lambda: PositionIndependentGrowInitializer(4), "ramped": lambda: RampedHalfAndHalfInitializer(4),
                        "full": lambda: FullInitializer(4), "standard": StandardInitializer,
                        "inject-grow": lambda: InjectInitialPopulationWrapper([rep.create_genotype(ExhaustiveSource((), strict=False))], GrowInitializer())}[name]()
                kw = {"max_tries": 2} if name in ("grow",) else {}
                return len(list(init.initialize(problem, rep, src, k, **kw)))

            st = ExploreStats()
            for ex in explore(run, max_dev=1, max_execs=40, horizon=200000, stats=st):
                r.executions += 1
                if ex.capped:
                    continue
                r.nontrivial += 1
                w = {"unit": unit, "k": k, "choices": list(ex.choices)}
                f = {"init": unit["init"], "min_depth_above_1": unit["grammar"] != "S1"}
                if ex.exc is not None:
                    if is_library_error(ex.exc) and unit["init"] in ("full", "ramped", "pigrow"):
                        r.count("full_not_applicable(C04's business)")
                        continue
                    r.add_violation(Violation(PROP, f"{unit['init']}.initialize", "raised", dict(f, exc=type(ex.exc).__name__), w,
                                              f"initialiser {unit['init']} on {unit['grammar']} asked for {k}: {exc_brief(ex.exc)}"))
                elif ex.result != k:
                    r.add_violation(Violation(PROP, f"{unit['init']}.initialize", "wrong-size", f, w,
                                              f"initialiser {unit['init']} on {unit['grammar']} asked for {k}, yielded {ex.result}"))
            r.capped += st.capped_paths
            r.count("initialiser_cases")
        r.states = 4
        r.samples.append({"initialiser": unit["init"], "grammar": unit["grammar"]})
    finally:
        b.cleanup()
    return r


def deep_spec(name):
    if name == "S1":
        return [s for s in G.family_shapes() if s["name"].startswith("S1:")][0]
    mid = [["Leaf", "M", None, [["v", ["ann", "int", ["IntRange", 0, 1]]]]], ["Deep", "M", None, [["y", ["ref", "M"]]]]]
    if name == "mindepth2":  # R -> Wrap(x: M); M -> Leaf | Deep(M)
        return {"name": "D2:mindepth2", "abstract": [["R", None, "ABC"], ["M", None, "ABC"]],
                "prods": [["Wrap", "R", None, [["x", ["ref", "M"]]]]] + mid, "start": "R"}
    return {"name": "D3:mindepth3", "abstract": [["R", None, "ABC"], ["W", None, "ABC"], ["M", None, "ABC"]],
            "prods": [["Wrap", "R", None, [["x", ["ref", "W"]], ["z", ["ref", "M"]]]], ["Wrap2", "W", None, [["x", ["ref", "M"]]]]] + mid, "start": "R"}


def run_lexicase(unit) -> UnitResult:
    from geneticengine.algorithms.gp.operators.selection import LexicaseSelection
    from geneticengine.problems import MultiObjectiveProblem

    r = UnitResult()
    rep = StubRepresentation(2)
    table = [[0.0, 2.0], [2.0, 0.0], [1.0, 1.0]]
    for n in (1, 2, 3, 4, 5):
        for k in range(1, n + 1):
            for form in ("list", "iterator"):
                for term in ("Lx", "seq(Lx,M)", "seq(T,Lx)"):
                    def run(src, n=n, k=k, form=form, term=term):
                        problem = MultiObjectiveProblem([False, True], lambda p: table[p.v % 3])
                        ev = SequentialEvaluator()
                        inds = [Individual(rep._new(i % 3), rep) for i in range(n)]
                        pop = inds if form == "list" else iter(inds)
                        lx = LexicaseSelection(epsilon=unit["epsilon"])
                        step = {"Lx": lx, "seq(Lx,M)": SequenceStep(lx, GenericMutationStep(1)),
                                "seq(T,Lx)": SequenceStep(TournamentSelection(2, with_replacement=True), lx)}[term]
                        if term == "seq(T,Lx)":
                            ev.evaluate(problem, inds)
                        return len(list(step.apply(problem, ev, rep, src, pop, k, 1)))

                    st = ExploreStats()
                    for ex in explore(run, max_dev=1, max_execs=40, horizon=2000, stats=st):
                        r.executions += 1
                        r.nontrivial += 1
                        w = {"unit": unit, "n": n, "k": k, "form": form, "term": term, "choices": list(ex.choices)}
                        f = {"combinators": ["lexicase"], "form": form}
                        if ex.exc is not None:
                            r.add_violation(Violation(PROP, "GeneticStep.apply", "raised", dict(f, exc=type(ex.exc).__name__), w,
                                                      f"{term} (epsilon={unit['epsilon']}) on {n} individuals ({form}), k={k}: {exc_brief(ex.exc)}"))
                        elif ex.result != k:
                            r.add_violation(Violation(PROP, "GeneticStep.apply", "wrong-size", dict(f, sign="over" if ex.result > k else "under"), w,
                                                      f"{term} (epsilon={unit['epsilon']}) on {n} individuals ({form}) asked for {k}, yielded {ex.result}"))
                    r.count("step_cases")
    r.states = 15
    r.samples.append({"lexicase_epsilon": unit["epsilon"]})
    return r


def run_init(unit) -> UnitResult:
    r = UnitResult()
    spec = [s for s in G.family_shapes() if s["name"].startswith("S1:")][0]
    b = G.build(spec)
    try:
        g = b.extract()
        problem = SingleObjectiveProblem(lambda p: 1.0)
        for k in range(1, 6):
            def run(src, k=k):
                rep = make_rep("tree", g, src, 3)
                name = unit["init"]
                if name == "standard":
                    init = StandardInitializer()
                elif name == "generic":
                    init = GenericPopulationInitializer()
                elif name == "full":
                    init = FullInitializer(3)
                elif name == "grow":
                    init = GrowInitializer()
                elif name == "pigrow":
                    init = PositionIndependentGrowInitializer(3)
                elif name == "ramped":
                    init = RampedHalfAndHalfInitializer(3)
                elif name == "halfandhalf":
                    init = HalfAndHalfInitializer(StandardInitializer(), FullInitializer(3))
                else:
                    progs = [rep.create_genotype(ExhaustiveSource([i % 3], strict=False)) for i in range(unit["inject"])]
                    init = InjectInitialPopulationWrapper(progs, StandardInitializer())
                return len(list(init.initialize(problem, rep, src, k)))

            st = ExploreStats()
            for ex in explore(run, max_dev=1, max_execs=60, horizon=3000, stats=st):
                r.executions += 1
                r.nontrivial += 1
                w = {"unit": unit, "k": k, "choices": list(ex.choices)}
                f = {"init": unit["init"]}
                if unit["init"] == "inject":
                    f["injected_vs_k"] = "fewer" if unit["inject"] < k else ("equal" if unit["inject"] == k else "more")
                    f["empty"] = unit["inject"] == 0
                if ex.exc is not None:
                    r.add_violation(Violation(PROP, f"{unit['init']}.initialize", "raised", dict(f, exc=type(ex.exc).__name__), w,
                                              f"initialiser {unit['init']} {unit.get('inject', '')} asked for {k}: {exc_brief(ex.exc)}"))
                elif ex.result != k:
                    r.add_violation(Violation(PROP, f"{unit['init']}.initialize", "wrong-size", f, w,
                                              f"initialiser {unit['init']} {unit.get('inject', '')} asked for {k}, yielded {ex.result}"))
            r.count("initialiser_cases")
        r.states = 5
        r.samples.append({"initialiser": unit["init"], "inject": unit.get("inject")})
    finally:
        b.cleanup()
    return r


class GenRec(SearchRecorder):
    def __init__(self):
        self.gens: dict = {}

    def register(self, tracker, individual, problem, is_best):
        g = individual.metadata.get("generation")
        self.gens.setdefault(g, []).append(id(individual))


def gp_step(name, size):
    if name == "default":
        return default_generic_programming_step()
    if name == "simplegp":
        e = max(1, size // 4)
        return ParallelStep([ElitismStep(), NoveltyStep(), SequenceStep(TournamentSelection(2), ExclusiveParallelStep([GenericMutationStep(0.5), GenericCrossoverStep(0.9)]))],
                            [e, e, size - 2 * e])
    if name == "elitism-heavy":
        return ParallelStep([ElitismStep(), NoveltyStep()], [3, 1])
    if name == "selection-only":
        return TournamentSelection(2, with_replacement=True)
    if name == "mutation05":
        return SequenceStep(TournamentSelection(2, with_replacement=True), GenericMutationStep(0.5))
    if name == "weights-1-1-0":
        return ParallelStep([ElitismStep(), NoveltyStep(), GenericMutationStep(1)], [1, 1, 0])
    if name == "seq-par":
        return SequenceStep(TournamentSelection(2), ParallelStep([GenericMutationStep(1), GenericCrossoverStep(1)], [1, 1]))
    raise ValueError(name)


def run_gp(unit) -> UnitResult:
    r = UnitResult()
    size = unit["size"]

    def run(src):
        rep = StubRepresentation(2)
        problem = SingleObjectiveProblem(lambda p: [2.0, 0.0, 1.0][p.v % 3])
        rec = GenRec()
        tracker = SingleObjectiveProgressTracker(problem, SequentialEvaluator(), recorders=[rec])
        gp = GeneticProgramming(problem, EvaluationBudget(10**9), rep, random=src, tracker=tracker, population_size=size,
                                step=gp_step(unit["step"], size))
        gens = {"n": 0}

        class Stop(BaseException):
            pass

        def is_done():
            gens["n"] += 1
            if gens["n"] > 3:
                raise Stop()
            return False

        gp.is_done = is_done
        try:
            gp.search()
        except Stop:
            pass
        return rec.gens

    st = ExploreStats()
    for ex in explore(run, max_dev=unit["max_dev"], max_execs=unit["max_execs"], horizon=5000, stats=st):
        r.executions += 1
        w = {"unit": unit, "choices": list(ex.choices)}
        f = {"step": unit["step"]}
        if ex.exc is not None:
            r.add_violation(Violation(PROP, "GeneticProgramming.search", "raised", dict(f, exc=type(ex.exc).__name__), w,
                                      f"GP step {unit['step']} population {size}: {exc_brief(ex.exc)}"))
            continue
        r.count("gp_runs")
        r.nontrivial += 1
        for g, ids in sorted(ex.result.items(), key=lambda kv: (kv[0] is None, kv[0])):
            if len(ids) != size:
                r.add_violation(Violation(PROP, "GeneticProgramming.search", "generation-size", dict(f, sign="over" if len(ids) > size else "under", initial=g == 0), w,
                                          f"GP step {unit['step']} population_size {size}: generation {g} has {len(ids)} individuals"))
                break
    r.states = st.executions
    r.truncated = st.truncated
    r.samples.append({"gp_step": unit["step"], "population_size": size, "runs": st.executions})
    return r


def run_unit(unit) -> UnitResult:
    return {"steps": run_steps, "init": run_init, "gp": run_gp, "fractional": run_fractional, "lexicase": run_lexicase,
            "reweighted": run_reweighted, "reweighted-lib": run_reweighted_lib, "init-deep": run_init_deep}[unit["kind"]](unit)


def finalize(cr):
    cr.require("step_cases")
    cr.require("initialiser_cases")
    cr.require("gp_runs")
    cr.exhaustive = False
    cr.assumptions += ["random answers inside steps are explored with a deviation bound (0 quick / 1 thorough for step terms, 1 / 2 for GP runs); "
                       "the size of a step's output does not depend on them except through mutation/crossover probabilities"]
