"""C14 -- searches terminate and stop at the first budget check after the budget is met."""
from __future__ import annotations

import itertools

from geneticengine.algorithms.gp.gp import GeneticProgramming, default_generic_programming_step
from geneticengine.algorithms.gp.operators.combinators import ExclusiveParallelStep, ParallelStep, SequenceStep
from geneticengine.algorithms.gp.operators.crossover import GenericCrossoverStep
from geneticengine.algorithms.gp.operators.elitism import ElitismStep
from geneticengine.algorithms.gp.operators.mutation import GenericMutationStep
from geneticengine.algorithms.gp.operators.novelty import NoveltyStep
from geneticengine.algorithms.gp.operators.selection import TournamentSelection
from geneticengine.algorithms.hill_climbing import HC
from geneticengine.algorithms.one_plus_one import OnePlusOne
from geneticengine.algorithms.random_search import RandomSearch
from geneticengine.evaluation.budget import AnyOf, EvaluationBudget, SearchBudget, TargetFitness
from geneticengine.evaluation.sequential import SequentialEvaluator
from geneticengine.evaluation.tracker import SingleObjectiveProgressTracker
from geneticengine.problems import SingleObjectiveProblem

from mc.explorer import ExploreStats, HorizonExceeded, explore
from mc.harness import UnitResult, Violation
from mc.stubrep import StubRepresentation
from checks.common import exc_brief

PROP = "C14"
TECHNIQUE = (
    "exhaustive enumeration of configurations (algorithm x evaluation budget n x population / neighbourhood size x budget "
    "combinator x step composition x optimisation direction) with the fitness landscape and all other random answers "
    "explored by E1 under a deviation bound; the real budget is wrapped in a logging proxy with an explicit horizon, and "
    "every check is compared with a reference answer computed from the invocation log; liveness = some explored answer "
    "sequence reaches a done state; steps that evaluate offspring themselves, the budget SimpleGP builds from (target_fitness, max_evaluations), budget and tracker objects that already served a search"
)
RULE = (
    "execution = one run of search(); oracle: terminates within the horizon, each budget check answers like the reference, "
    "the run stops at the first 'done' check, n <= evaluations < n + batch; a configuration none of whose executions "
    "terminates is a livelock; non-trivial = run where a target is hit before the evaluation budget or the budget is not "
    "a multiple of the batch size"
)

HORIZON = 60
_TG: dict = {}


def _tiny_grammar():
    if "g" not in _TG:
        from mc import grammars as G

        _TG["b"] = G.build(G.family_shapes()[0])
        _TG["g"] = _TG["b"].extract()
    return _TG["g"]


class ConstantRepresentation(StubRepresentation):
    """A search space with a single point: every genotype is the integer 0 (equal by value), mutation and crossover
    can only hand back an equal genotype."""

    def __init__(self):
        super().__init__(0)

    def _new(self, v):
        return 0

    def genotype_to_phenotype(self, genotype):
        from mc.stubrep import StubProgram

        return StubProgram(0)

    def mutate(self, random, genotype, **kwargs):
        random.randint(0, 0)
        return 0

    def crossover(self, random, parent1, parent2, **kwargs):
        return 0, 0


class ProxyBudget(SearchBudget):
    def __init__(self, real, ref, log, snap=None):
        self.real, self.ref, self.log, self.snap, self.snaps = real, ref, log, snap, []

    def is_done(self, tracker):
        if len(self.log) >= HORIZON:
            raise HorizonExceeded("budget checks")
        ans = self.real.is_done(tracker)
        self.log.append((tracker.get_number_evaluations(), bool(ans), bool(self.ref(tracker))))
        if self.snap is not None:
            self.snaps.append(self.snap())
        return ans


def budget_pair(kind, n, target, fit_log, minimize):
    """(real budget, reference predicate)"""

    def best():
        return (min if minimize else max)(fit_log) if fit_log else None

    def ref_eval(tr):
        return len(fit_log) >= n

    def ref_target(tr):
        b = best()
        return b is not None and abs(b - target) < 1e-4

    if kind == "eval":
        return EvaluationBudget(n), ref_eval
    if kind == "any(eval,target)":
        return AnyOf(EvaluationBudget(n), TargetFitness(target)), lambda tr: ref_eval(tr) or ref_target(tr)
    if kind == "any(target,eval)":
        return AnyOf(TargetFitness(target), EvaluationBudget(n)), lambda tr: ref_eval(tr) or ref_target(tr)
    if kind == "any(any(target,eval),eval2)":
        return AnyOf(AnyOf(TargetFitness(target), EvaluationBudget(n + 3)), EvaluationBudget(n)), lambda tr: ref_eval(tr) or ref_target(tr)
    if kind == "simplegp":  # built by the library; only the reference is ours
        return None, (lambda tr: ref_eval(tr) or (target is not None and ref_target(tr)))
    raise ValueError(kind)


def gp_step(name):
    if name == "default":
        return default_generic_programming_step()
    if name == "simplegp":
        return ParallelStep([ElitismStep(), NoveltyStep(), SequenceStep(TournamentSelection(2), ExclusiveParallelStep([GenericMutationStep(0.5), GenericCrossoverStep(0.9)]))], [1, 1, 2])
    if name == "elitism-heavy":
        return ParallelStep([ElitismStep(), NoveltyStep()], [3, 1])
    if name == "selection-only":
        return TournamentSelection(2, with_replacement=True)
    if name == "mutation05":
        return SequenceStep(TournamentSelection(2, with_replacement=True), GenericMutationStep(0.5))
    if name == "elitism+bare-mutation":  # a mutation step alone in a slice: it is handed the whole population and a slice-sized target
        return ParallelStep([ElitismStep(), GenericMutationStep(1.0)], [1, 1])
    if name == "mutation-then-tournament":
        return SequenceStep(GenericMutationStep(1), TournamentSelection(2, with_replacement=True))
    raise ValueError(name)


def units(tier, seed):
    us = []
    ns = range(1, 9) if tier == "quick" else range(1, 13)
    kinds = ["eval", "any(eval,target)", "any(target,eval)", "any(any(target,eval),eval2)"]
    md = 2 if tier == "quick" else 3
    me = 250 if tier == "quick" else 4000
    for n in ns:
        for kind in kinds:
            for minimize in (False, True):
                for target in (2, 0) if kind != "eval" else (None,):
                    for algo, sizes in (("rs", (1,)), ("1+1", (1,)), ("hc", (1, 2, 4)), ("gp", (2, 3, 5))):
                        for size in sizes:
                            steps = ("default", "simplegp", "elitism-heavy", "selection-only", "mutation05") if algo == "gp" else (None,)
                            for step in steps:
                                if tier == "quick" and algo == "gp" and step not in ("default", "selection-only") and (n % 3 or kind == "any(any(target,eval),eval2)"):
                                    continue
                                us.append({"algo": algo, "n": n, "budget": kind, "minimize": minimize, "target": target, "size": size,
                                           "step": step, "max_dev": md, "max_execs": me})
    for n in (4, 7):
        for size in (2, 3):
            us.append({"algo": "gp", "n": n, "budget": "eval", "minimize": False, "target": None, "size": size,
                       "step": "mutation-then-tournament", "max_dev": md, "max_execs": me})
            # the selection step evaluates the offspring before the next population presents them to the tracker
            for kind in kinds[1:3]:
                for minimize in (False, True):
                    us.append({"algo": "gp", "n": n + 4, "budget": kind, "minimize": minimize, "target": 0 if minimize else 2, "size": size,
                               "step": "mutation-then-tournament", "max_dev": md, "max_execs": me})
    for n in (5, 9):
        for size in (2, 4, 5):
            us.append({"algo": "gp", "n": n, "budget": "eval", "minimize": False, "target": None, "size": size,
                       "step": "elitism+bare-mutation", "max_dev": md, "max_execs": me})
    # a search space with a single point (a grammar with one tree): the budget is still spent and the search stops
    for algo, size in (("rs", 1), ("1+1", 1), ("hc", 1), ("hc", 3), ("gp", 2)):
        for n in (1, 2, 4, 7):
            us.append({"algo": algo, "n": n, "budget": "eval", "minimize": False, "target": None, "size": size,
                       "step": "mutation05" if algo == "gp" else None, "max_dev": md, "max_execs": me, "constant_rep": True})
    # the parallel evaluator (its pool replaced by an in-process one): a batch of k individuals counts as k evaluations
    for algo, size in (("hc", 2), ("hc", 4), ("gp", 3), ("rs", 1)):
        for n in (3, 5, 8):
            for kind in ("eval", "any(target,eval)"):
                us.append({"algo": algo, "n": n, "budget": kind, "minimize": False, "target": 2 if kind != "eval" else None, "size": size,
                           "step": ("mutation-then-tournament" if n == 5 else "default") if algo == "gp" else None, "max_dev": md, "max_execs": me,
                           "evaluator": "parallel-inline"})
    # the budget SimpleGP's constructor builds from (target_fitness, max_evaluations), with SimpleGP's own step and tracker
    for n in (5, 9):
        for target in (None, 0, 0.0, 2, 1.0):
            for minimize in (False, True):
                us.append({"algo": "simplegp", "n": n, "budget": "simplegp", "minimize": minimize, "target": target, "size": 4,
                           "step": "simplegp-built", "max_dev": md, "max_execs": me})
    for algo, size in (("rs", 1), ("1+1", 1), ("hc", 2), ("gp", 3)):
        for n in (3, 6):
            us.append({"algo": algo, "n": n, "budget": "eval", "minimize": False, "target": None, "size": size,
                       "step": "default" if algo == "gp" else None, "max_dev": md, "max_execs": me, "user_tracker_second_run": True})
            for kind in kinds:
                us.append({"algo": algo, "n": n, "budget": kind, "minimize": False, "target": 2 if kind != "eval" else None, "size": size,
                           "step": "default" if algo == "gp" else None, "max_dev": md, "max_execs": me, "budget_object_reused": True})
    # fitness values just inside / just outside the 1e-4 tolerance of the target, for small and large targets
    for target in (0.0, 100.0):
        near = [target + 3.0, target + 5e-5, target + 5e-3, target - 2e-4, target - 9e-5]
        for kind in kinds[1:3]:
            for algo, size in (("rs", 1), ("1+1", 1), ("hc", 2), ("gp", 3)):
                for minimize in (False, True):
                    us.append({"algo": algo, "n": 6, "budget": kind, "minimize": minimize, "target": target, "size": size,
                               "step": "default" if algo == "gp" else None, "max_dev": md, "max_execs": me, "values": near})
    return us


def run_unit(unit) -> UnitResult:
    r = UnitResult()
    algo, n, size, minimize = unit["algo"], unit["n"], unit["size"], unit["minimize"]

    def run(src):
        rep = StubRepresentation(2)
        if unit.get("constant_rep"):
            rep = ConstantRepresentation()
        fit_log = []

        values = unit.get("values") or [0.0, 1.0, 2.0]

        def ff(p):
            v = float(values[src.randint(0, len(values) - 1)])
            fit_log.append(v)
            return v

        problem = SingleObjectiveProblem(ff, minimize=minimize)
        if unit.get("user_tracker_second_run"):
            # a first complete search with a tracker built the short way (no explicit evaluator), then the observed one
            first_problem = SingleObjectiveProblem(lambda p: 1.0, minimize=minimize)
            t1 = SingleObjectiveProgressTracker(first_problem)
            RandomSearch(first_problem, EvaluationBudget(5), StubRepresentation(2), random=src, tracker=t1).search()
            tracker = SingleObjectiveProgressTracker(problem)
        elif unit.get("evaluator") == "parallel-inline":
            from geneticengine.evaluation.parallel import ParallelEvaluator

            tracker = SingleObjectiveProgressTracker(problem, ParallelEvaluator())
        else:
            tracker = SingleObjectiveProgressTracker(problem, SequentialEvaluator())
        checks = []
        real, ref = budget_pair(unit["budget"], n, unit["target"], fit_log, minimize)
        if unit.get("budget_object_reused"):
            # the same budget object already served a complete search (with its own tracker and problem)
            p0 = SingleObjectiveProblem(lambda p: 2.0, minimize=minimize)
            RandomSearch(p0, real, StubRepresentation(2), random=src, tracker=SingleObjectiveProgressTracker(p0, SequentialEvaluator())).search()
        budget = ProxyBudget(real, ref, checks) if real is not None else None
        if algo == "simplegp":
            from geml.simplegp import SimpleGP
            from geneticengine.algorithms.gp.operators.initializers import StandardInitializer

            sgp = SimpleGP(ff, _tiny_grammar(), minimize=minimize, target_fitness=unit["target"], max_time=1e9, max_evaluations=n,
                           population_size=size, elitism=1, novelty=1, mutation_probability=0.5)
            alg = sgp.gp
            # the grammar-guided parts are replaced by the stub; budget, step, tracker and problem stay SimpleGP's
            alg.representation, alg.random, alg.population_initializer = rep, src, StandardInitializer()
            tracker = alg.tracker
            alg.budget = budget = ProxyBudget(alg.budget, ref, checks)
        elif algo == "gp":
            alg = GeneticProgramming(problem, budget, rep, random=src, tracker=tracker, population_size=size, step=gp_step(unit["step"]))
        elif algo == "rs":
            alg = RandomSearch(problem, budget, rep, random=src, tracker=tracker)
        elif algo == "hc":
            alg = HC(problem, budget, rep, random=src, tracker=tracker, number_of_mutations=size)
        else:
            alg = OnePlusOne(problem, budget, rep, random=src, tracker=tracker)
        handed = []  # raw fitness of every individual presented to the tracker, in order
        orig_evaluate = tracker.evaluate

        def logging_evaluate(individuals):
            inds = list(individuals)
            out = orig_evaluate(inds)
            handed.extend(i.get_fitness(problem_of[0]).fitness_components[0] for i in inds if i.has_fitness(problem_of[0]))
            return out

        tracker.evaluate = logging_evaluate
        problem_of = [alg.problem]
        alg.budget.snap = lambda: len(handed)
        run.checks, run.fit_log, run.tracker, run.handed, run.snaps = checks, fit_log, tracker, handed, alg.budget.snaps
        alg.search()
        return checks, list(fit_log), tracker.get_number_evaluations(), list(handed), list(alg.budget.snaps)

    real_pool = None
    if unit.get("evaluator") == "parallel-inline":
        import pathos.multiprocessing as pm

        class InlinePool:  # same contract as the pool ParallelEvaluator asks for, tasks run in this process in input order
            def __init__(self, nodes=None, *a, **k):
                if nodes is not None and nodes < 1:
                    raise ValueError("Number of processes must be at least 1")

            def __enter__(self):
                return self

            def __exit__(self, *a):
                return False

            def map(self, f, items):
                return [f(x) for x in items]

            def imap(self, f, items):
                return iter(self.map(f, items))

            uimap = imap

            def amap(self, f, items):
                out = self.map(f, items)
                return type("R", (), {"get": lambda self, timeout=None: out})()

            def close(self):
                pass

            join = clear = terminate = restart = close

        real_pool = pm.ProcessingPool
        pm.ProcessingPool = InlinePool
    try:
        return _run_unit_body(unit, r, run, algo, n, size, minimize)
    finally:
        if real_pool is not None:
            import pathos.multiprocessing as pm

            pm.ProcessingPool = real_pool


def _run_unit_body(unit, r, run, algo, n, size, minimize) -> UnitResult:
    st = ExploreStats()
    terminated = 0
    capped_witness = None
    batch = 1 if algo in ("rs", "1+1") else size
    n_only = unit["budget"] == "eval" or (unit["budget"] == "simplegp" and unit["target"] is None)
    feat = {"algo": algo, "budget": unit["budget"], "step": unit["step"]}
    for ex in explore(run, max_dev=unit["max_dev"], max_execs=unit["max_execs"], horizon=20000, stats=st):
        r.executions += 1
        w = {"unit": unit, "choices": list(ex.choices)}
        if ex.capped:
            cks = getattr(run, "checks", [])
            stalled = len(cks) >= 20 and len({c[0] for c in cks[-20:]}) == 1
            if capped_witness is None or not stalled:
                capped_witness = dict(w, evaluations_stalled=stalled, last_checks=[list(c) for c in cks[-3:]])
            continue
        if ex.exc is not None:
            r.add_violation(Violation(PROP, f"{algo}.search", "raised", dict(feat, exc=type(ex.exc).__name__), w, f"{unit}: {exc_brief(ex.exc)}"))
            continue
        terminated += 1
        checks, fit_log, evals, handed, snaps = ex.result
        r.count("terminated_runs")
        if evals != len(fit_log):
            r.count("counter_differs_from_invocations(C13's business)")
        if n % batch or any(c[2] and c[0] < n for c in checks):
            r.nontrivial += 1
        # every check answers like the reference
        for k, (ev, ans, ref) in enumerate(checks):
            if ans != ref:
                # was the best evaluated individual ever presented to the tracker before this check?
                pick = min if minimize else max
                presented = bool(handed[: snaps[k]]) and pick(handed[: snaps[k]]) == pick(fit_log[:ev]) if ev else None
                r.add_violation(Violation(PROP, "SearchBudget.is_done", "wrong-answer", dict(feat, expected=ref, best_presented_to_tracker=presented), w,
                                          f"{unit['budget']} n={n} target={unit['target']} minimize={minimize}: check {k} at {ev} evaluations "
                                          f"(fitness so far {fit_log[:ev]}) answered {ans}, reference {ref}"))
                break
        else:
            if not checks or not checks[-1][1]:
                r.add_violation(Violation(PROP, f"{algo}.search", "returned-without-done", feat, w, f"{unit}: search returned although the last check said not done"))
            elif any(c[1] for c in checks[:-1]):
                r.add_violation(Violation(PROP, f"{algo}.search", "continued-after-done", feat, w, f"{unit}: checks {checks}"))
            elif evals != checks[-1][0]:
                r.add_violation(Violation(PROP, f"{algo}.search", "evaluated-after-done", feat, w, f"{unit}: {evals} evaluations at return, {checks[-1][0]} at the done check"))
            elif n_only and not (n <= evals < n + batch):
                r.add_violation(Violation(PROP, f"{algo}.search", "overshoot", dict(feat, sign="under" if evals < n else "over"), w,
                                          f"{algo} size {size} n={n}: stopped with {evals} evaluations (allowed [{n}, {n + batch}))"))
            else:
                # between two consecutive checks at most `batch` evaluations
                prev = 0
                for ev, _, _ in checks:
                    if ev - prev > batch and not (algo in ("gp", "simplegp") and prev == 0 and ev <= size):
                        r.add_violation(Violation(PROP, f"{algo}.search", "too-many-evaluations-between-checks", feat, w,
                                                  f"{algo} size {size}: {ev - prev} evaluations between two checks"))
                        break
                    prev = ev
    r.capped += st.capped_paths
    if terminated == 0 and st.executions > 0:
        stalled = bool((capped_witness or {}).get("evaluations_stalled"))
        r.add_violation(Violation(PROP, f"{algo}.search", "never-terminates", dict(feat, evaluations_stalled=stalled), capped_witness or {"unit": unit},
                                  f"{algo} step={unit['step']} population {size} budget {unit['budget']} n={n}: none of the {st.executions} explored "
                                  f"answer sequences reaches a 'done' check within {HORIZON} checks"))
    r.states = st.executions
    r.truncated = st.truncated
    if len(r.samples) < 1:
        r.samples.append({"config": {k: unit[k] for k in ("algo", "n", "budget", "size", "step", "minimize", "target")}, "runs": st.executions, "terminated": terminated})
    return r


def finalize(cr):
    cr.require("terminated_runs")
    cr.exhaustive = False
    cr.assumptions += ["wall-clock budgets are out of scope (excepted by the property)",
                       "random answers and landscapes are explored up to a deviation bound (2 quick / 3 thorough); horizon 60 budget checks"]
