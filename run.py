#!/venv/bin/python
"""Entry point: /venv/bin/python run.py Cxx --tier quick|thorough   |   --replay <file>   |   --selftest"""
from __future__ import annotations

import argparse
import importlib
import json
import os
import sys

if os.environ.get("PYTHONHASHSEED") != "0" or os.environ.get("PYTHONDONTWRITEBYTECODE") != "1":
    # string hashing must not vary between runs of the harness: re-exec with a fixed hash seed
    env = dict(os.environ, PYTHONHASHSEED="0", PYTHONDONTWRITEBYTECODE="1")
    os.execve(sys.executable, [sys.executable] + sys.argv, env)
sys.dont_write_bytecode = True
if os.environ.get("VERIF_REPO"):
    # trying a seeded change in a scratch worktree: import the library from there (default: /repo)
    sys.path.insert(0, os.path.realpath(os.environ["VERIF_REPO"]))
HERE = os.path.dirname(os.path.abspath(__file__))
sys.path.insert(0, HERE)
os.chdir(HERE)

import mc  # noqa: E402

ALL = [f"C{i:02d}" for i in range(1, 21)]


def run_check(prop: str, tier: str, seed: int) -> int:
    from mc.harness import CheckRun, pmap

    mod = importlib.import_module(f"checks.{prop}")
    cr = CheckRun(prop, tier, seed, mod.RULE, mod.TECHNIQUE)
    units = mod.units(tier, seed)
    # thorough runs are bounded by a wall-clock budget (default 25 min, VERIF_BUDGET_S); simplest grammars first, so
    # that what is skipped when the budget expires is the tail of the largest grammars (reported in the evidence)
    budget = None
    if tier == "thorough":
        budget = float(os.environ.get("VERIF_BUDGET_S", "1200"))

        def size(u):
            sp = u.get("spec") if isinstance(u, dict) else None
            return (1 if (isinstance(sp, dict) and "," in sp.get("name", "")) else 0)

        # interleave the unit kinds inside each size class, so that no kind of exploration is starved by the budget
        pos: dict = {}
        keyed = []
        for u in units:
            k = (size(u), u.get("kind") if isinstance(u, dict) else None)
            pos[k] = pos.get(k, 0) + 1
            keyed.append(((k[0], pos[k]), u))
        units = [u for _, u in sorted(keyed, key=lambda x: x[0])]
    cr.absorb_all(pmap(mod.run_unit, units, budget_s=budget))
    if hasattr(mod, "finalize"):
        mod.finalize(cr)
    return cr.finish()


def replay(path: str) -> int:
    with open(path) as f:
        d = json.load(f)
    mod = importlib.import_module(f"checks.{d['check']}")
    unit = d["witness"]["unit"]
    want = (d["site"], d["kind"], json.dumps(d["features"], sort_keys=True))
    results = []
    for attempt in range(2):  # replay twice: identical observations are required
        r = mod.run_unit(unit)
        from mc.harness import jsonable

        hits = [v for v in r.violations if (v.site, v.kind, json.dumps(jsonable(v.feat), sort_keys=True)) == want]
        results.append(len(hits) > 0)
        if attempt == 0 and hits:
            print(hits[0].msg[:600])
    if results[0] != results[1]:
        print("HARNESS-ERROR: replay not deterministic")
        return 2
    if results[0]:
        print(f"REPRODUCED property={d['check']} site={d['site']} kind={d['kind']}")
        return 1
    print("NOT REPRODUCED")
    return 0


def selftest() -> int:
    mc.assert_repo_under_test()
    from mc.explorer import explore, ExploreStats

    st = ExploreStats()
    outs = set()
    for ex in explore(lambda s: (s.randint(0, 2), s.choice("ab"), s.random_bool()), stats=st):
        outs.add(ex.result)
    assert st.executions == 12 and len(outs) == 12, (st.executions, len(outs))
    print("selftest ok: explorer enumerates 12/12 outcomes; geneticengine from /repo")
    return 0


def main():
    ap = argparse.ArgumentParser()
    ap.add_argument("prop", nargs="?")
    ap.add_argument("--tier", default=os.environ.get("VERIF_TIER", "quick"), choices=["quick", "thorough"])
    ap.add_argument("--replay")
    ap.add_argument("--selftest", action="store_true")
    a = ap.parse_args()
    if a.selftest:
        sys.exit(selftest())
    mc.assert_repo_under_test()
    if a.replay:
        sys.exit(replay(a.replay))
    seed = int(os.environ.get("VERIF_SEED", "0") or 0)
    if a.prop == "all":
        rc = 0
        for p in ALL:
            rc = max(rc, run_check(p, a.tier, seed))
        sys.exit(rc)
    sys.exit(run_check(a.prop, a.tier, seed))


if __name__ == "__main__":
    main()
