from abc import ABC
from dataclasses import dataclass
from typing import Annotated
from geneticengine.algorithms.gp.gp import GeneticProgramming
from geneticengine.algorithms.gp.operators.combinators import SequenceStep
from geneticengine.algorithms.gp.operators.mutation import GenericMutationStep
from geneticengine.algorithms.gp.operators.selection import TournamentSelection
from geneticengine.evaluation.budget import AnyOf, EvaluationBudget, TargetFitness
from geneticengine.grammar.grammar import extract_grammar
from geneticengine.grammar.metahandlers.ints import IntRange
from geneticengine.problems import SingleObjectiveProblem
from geneticengine.random.sources import NativeRandomSource
from geneticengine.representations.tree.initializations import MaxDepthDecider
from geneticengine.representations.tree.treebased import TreeBasedRepresentation

class Root(ABC): pass
@dataclass
class Option(Root):
    a: Annotated[int, IntRange(0, 1000)]

for seed in range(30):
    calls=[]
    def fitness(x):
        v = 1.0 if x.a % 13 == 0 else 0.0
        calls.append(v); return v
    g = extract_grammar([Option], Root); rnd = NativeRandomSource(seed)
    gp = GeneticProgramming(problem=SingleObjectiveProblem(fitness, minimize=False), budget=AnyOf(TargetFitness(1.0), EvaluationBudget(300)),
        representation=TreeBasedRepresentation(g, decider=MaxDepthDecider(rnd, g, max_depth=2)), random=rnd, population_size=4,
        step=SequenceStep(GenericMutationStep(1.0), TournamentSelection(2, with_replacement=True)))
    best = gp.search()
    if 1.0 in calls:
        first = calls.index(1.0)+1
        print(seed, "first hit at", first, "total", len(calls), "returned", best.get_fitness(gp.problem).fitness_components)
